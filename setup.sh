#!/bin/sh
# Run once after a fresh restore (offline).  Nothing to compile ahead of time: every check
# builds what it needs from /repo's current tree.  This script only verifies the toolchain.
set -e
cd "$(dirname "$0")"
export CARGO_NET_OFFLINE=true
command -v cargo-kani >/dev/null || { echo "cargo-kani missing"; exit 1; }
command -v cbmc >/dev/null || { echo "cbmc missing"; exit 1; }
command -v goto-cc >/dev/null || { echo "goto-cc missing"; exit 1; }
command -v goto-instrument >/dev/null || { echo "goto-instrument missing"; exit 1; }
test -f "${KANI_HOME:-$HOME/.kani}/kani-0.68.0/library/kani/kani_lib.c" || { echo "kani_lib.c missing"; exit 1; }
python3 -c "import sys; sys.path.insert(0,'lib'); import props, vdriver; print('properties with checks:', sorted(props.PROPS))"
mkdir -p evidence
echo "setup ok"
