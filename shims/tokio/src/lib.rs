//! Sequential contract model of the tokio APIs used by penguin-mux and penguin-socks.
//! See DESIGN.md §3.2.  Every item keeps tokio's name, signature and documented behaviour;
//! there is no runtime, no threads and no real time.
pub mod io;
pub mod sync;
pub mod time;
