//! Sequential model of the tokio APIs used by penguin-mux (probe version).
pub mod sync;
pub mod io;
