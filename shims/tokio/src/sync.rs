//! Sequential contract model of `tokio::sync::{mpsc, oneshot}`.
//!
//! Single-threaded FIFO rings (inline arrays, no heap in the hot path) with exact
//! capacity / closed / sender-count semantics and real waker registration: a receiver that
//! finds the queue empty parks its `Waker` and the next send (or the last sender going away)
//! wakes it; a bounded `send().await` that finds the queue full parks the sender's `Waker` and
//! the next receive (or `close`) wakes it.
//!
//! Harness bound: at most `QCAP` queued items per channel; exceeding it is reported as
//! "BOUND:" (inconclusive), never silently dropped.
pub mod mpsc {
    use std::cell::UnsafeCell;
    use std::sync::Arc;
    use std::task::{Context, Poll, Waker};

    pub const QCAP: usize = 6;
    struct Ring<T> {
        slots: [Option<T>; QCAP],
        head: usize,
        len: usize,
    }
    impl<T> Ring<T> {
        fn new() -> Self {
            Self { slots: [const { None }; QCAP], head: 0, len: 0 }
        }
        fn push(&mut self, v: T) {
            assert!(self.len < QCAP, "BOUND: harness queue bound (QCAP) exceeded in the tokio mpsc model");
            let mut i = self.head + self.len;
            if i >= QCAP {
                i -= QCAP;
            }
            core::mem::forget(core::mem::replace(&mut self.slots[i], Some(v)));
            self.len += 1;
        }
        fn pop(&mut self) -> Option<T> {
            if self.len == 0 {
                return None;
            }
            let v = self.slots[self.head].take();
            self.head += 1;
            if self.head >= QCAP {
                self.head = 0;
            }
            self.len -= 1;
            v
        }
        fn clear(&mut self) {
            let mut i = 0;
            while i < QCAP {
                self.slots[i] = None;
                i += 1;
            }
            self.len = 0;
            self.head = 0;
        }
    }
    pub mod error {
        #[derive(Debug, PartialEq, Eq, Clone, Copy)]
        pub enum TrySendError<T> {
            Full(T),
            Closed(T),
        }
        impl<T> core::fmt::Display for TrySendError<T> {
            fn fmt(&self, _f: &mut core::fmt::Formatter<'_>) -> core::fmt::Result {
                Ok(())
            }
        }
        #[derive(Debug, PartialEq, Eq, Clone, Copy)]
        pub struct SendError<T>(pub T);
        impl<T> core::fmt::Display for SendError<T> {
            fn fmt(&self, _f: &mut core::fmt::Formatter<'_>) -> core::fmt::Result {
                Ok(())
            }
        }
        #[derive(Debug, PartialEq, Eq, Clone, Copy)]
        pub enum TryRecvError {
            Empty,
            Disconnected,
        }
    }
    use error::*;
    struct Chan<T> {
        q: Ring<T>,
        cap: usize,
        rx_closed: bool,
        senders: usize,
        /// slots handed out by `try_reserve` and not yet used
        reserved: usize,
        rx_waker: Option<Waker>,
        tx_waker: Option<Waker>,
    }
    struct Shared<T>(UnsafeCell<Chan<T>>);
    unsafe impl<T: Send> Send for Shared<T> {}
    unsafe impl<T: Send> Sync for Shared<T> {}
    impl<T> Shared<T> {
        #[allow(clippy::mut_from_ref)]
        fn get(&self) -> &mut Chan<T> {
            unsafe { &mut *self.0.get() }
        }
    }
    fn new<T>(cap: usize) -> Arc<Shared<T>> {
        Arc::new(Shared(UnsafeCell::new(Chan { q: Ring::new(), cap, reserved: 0, rx_closed: false, senders: 1, rx_waker: None, tx_waker: None })))
    }
    pub struct Sender<T>(Arc<Shared<T>>);
    pub struct Receiver<T>(Arc<Shared<T>>);
    pub struct UnboundedSender<T>(Arc<Shared<T>>);
    pub struct UnboundedReceiver<T>(Arc<Shared<T>>);
    macro_rules! dbg_impl {
        ($t:ident) => {
            impl<T> core::fmt::Debug for $t<T> {
                fn fmt(&self, f: &mut core::fmt::Formatter<'_>) -> core::fmt::Result {
                    f.write_str(stringify!($t))
                }
            }
        };
    }
    dbg_impl!(Sender);
    dbg_impl!(Receiver);
    dbg_impl!(UnboundedSender);
    dbg_impl!(UnboundedReceiver);
    pub fn channel<T>(cap: usize) -> (Sender<T>, Receiver<T>) {
        assert!(cap > 0, "mpsc bounded channel requires buffer > 0");
        let s = new(cap);
        (Sender(s.clone()), Receiver(s))
    }
    pub fn unbounded_channel<T>() -> (UnboundedSender<T>, UnboundedReceiver<T>) {
        let s = new(usize::MAX);
        (UnboundedSender(s.clone()), UnboundedReceiver(s))
    }
    fn try_send<T>(c: &mut Chan<T>, v: T) -> Result<(), TrySendError<T>> {
        if c.rx_closed {
            return Err(TrySendError::Closed(v));
        }
        if c.q.len + c.reserved >= c.cap {
            return Err(TrySendError::Full(v));
        }
        c.q.push(v);
        if let Some(w) = c.rx_waker.take() {
            w.wake();
        }
        Ok(())
    }
    fn poll_recv<T>(c: &mut Chan<T>, cx: &mut Context<'_>) -> Poll<Option<T>> {
        if let Some(v) = c.q.pop() {
            if let Some(w) = c.tx_waker.take() {
                w.wake();
            }
            return Poll::Ready(Some(v));
        }
        if c.rx_closed || c.senders == 0 {
            return Poll::Ready(None);
        }
        c.rx_waker = Some(cx.waker().clone());
        Poll::Pending
    }
    fn try_recv<T>(c: &mut Chan<T>) -> Result<T, TryRecvError> {
        match c.q.pop() {
            Some(v) => {
                if let Some(w) = c.tx_waker.take() {
                    w.wake();
                }
                Ok(v)
            }
            None if c.rx_closed || c.senders == 0 => Err(TryRecvError::Disconnected),
            None => Err(TryRecvError::Empty),
        }
    }
    fn close<T>(c: &mut Chan<T>) {
        c.rx_closed = true;
        if let Some(w) = c.tx_waker.take() {
            w.wake();
        }
    }
    fn drop_sender<T>(c: &mut Chan<T>) {
        c.senders -= 1;
        if c.senders == 0 {
            if let Some(w) = c.rx_waker.take() {
                w.wake();
            }
        }
    }
    impl<T> Sender<T> {
        pub fn try_send(&self, v: T) -> Result<(), TrySendError<T>> {
            try_send(self.0.get(), v)
        }
        /// `async fn send` of tokio, as a hand-written future: the capacity / closed checks come
        /// first and the value is moved exactly once (a generated coroutine would shuffle the
        /// value between its state and a closure, which the symbolic execution pays dearly for).
        pub fn send(&self, v: T) -> SendFut<'_, T> {
            SendFut { tx: self, v: Some(v) }
        }
        /// tokio's `try_reserve`: a slot is set aside now; `Permit::send` cannot fail; dropping the
        /// permit gives the slot back.
        pub fn try_reserve(&self) -> Result<Permit<'_, T>, TrySendError<()>> {
            let c = self.0.get();
            if c.rx_closed {
                return Err(TrySendError::Closed(()));
            }
            if c.q.len + c.reserved >= c.cap {
                return Err(TrySendError::Full(()));
            }
            c.reserved += 1;
            Ok(Permit { tx: self })
        }
        pub fn strong_count(&self) -> usize {
            self.0.get().senders
        }
        pub fn is_closed(&self) -> bool {
            self.0.get().rx_closed
        }
        pub fn capacity(&self) -> usize {
            let c = self.0.get();
            c.cap - c.q.len - c.reserved
        }
        pub fn max_capacity(&self) -> usize {
            self.0.get().cap
        }
    }
    pub struct Permit<'a, T> {
        tx: &'a Sender<T>,
    }
    impl<T> Permit<'_, T> {
        pub fn send(self, v: T) {
            let c = self.tx.0.get();
            c.reserved -= 1;
            c.q.push(v);
            if let Some(w) = c.rx_waker.take() {
                w.wake();
            }
            core::mem::forget(self);
        }
    }
    impl<T> Drop for Permit<'_, T> {
        fn drop(&mut self) {
            let c = self.tx.0.get();
            c.reserved -= 1;
            if let Some(w) = c.tx_waker.take() {
                w.wake();
            }
        }
    }
    /// `async fn recv` of tokio as a hand-written future (see `SendFut`).
    pub struct RecvFut<'a, T> {
        c: &'a Arc<Shared<T>>,
    }
    impl<T> Unpin for RecvFut<'_, T> {}
    impl<T> std::future::Future for RecvFut<'_, T> {
        type Output = Option<T>;
        fn poll(self: std::pin::Pin<&mut Self>, cx: &mut Context<'_>) -> Poll<Option<T>> {
            poll_recv(self.c.get(), cx)
        }
    }
    pub struct SendFut<'a, T> {
        tx: &'a Sender<T>,
        v: Option<T>,
    }
    impl<T> Unpin for SendFut<'_, T> {}
    impl<T> std::future::Future for SendFut<'_, T> {
        type Output = Result<(), SendError<T>>;
        fn poll(self: std::pin::Pin<&mut Self>, cx: &mut Context<'_>) -> Poll<Self::Output> {
            let me = self.get_mut();
            let c = me.tx.0.get();
            if c.rx_closed {
                return Poll::Ready(Err(SendError(me.v.take().expect("polled after completion"))));
            }
            if c.q.len + c.reserved >= c.cap {
                c.tx_waker = Some(cx.waker().clone());
                return Poll::Pending;
            }
            c.q.push(me.v.take().expect("polled after completion"));
            if let Some(w) = c.rx_waker.take() {
                w.wake();
            }
            Poll::Ready(Ok(()))
        }
    }
    impl<T> Clone for Sender<T> {
        fn clone(&self) -> Self {
            self.0.get().senders += 1;
            Sender(self.0.clone())
        }
    }
    impl<T> Drop for Sender<T> {
        fn drop(&mut self) {
            drop_sender(self.0.get());
        }
    }
    impl<T> UnboundedSender<T> {
        pub fn send(&self, v: T) -> Result<(), SendError<T>> {
            match try_send(self.0.get(), v) {
                Ok(()) => Ok(()),
                Err(TrySendError::Closed(v)) | Err(TrySendError::Full(v)) => Err(SendError(v)),
            }
        }
        pub fn is_closed(&self) -> bool {
            self.0.get().rx_closed
        }
    }
    impl<T> Clone for UnboundedSender<T> {
        fn clone(&self) -> Self {
            self.0.get().senders += 1;
            UnboundedSender(self.0.clone())
        }
    }
    impl<T> Drop for UnboundedSender<T> {
        fn drop(&mut self) {
            drop_sender(self.0.get());
        }
    }
    impl<T> Receiver<T> {
        pub fn poll_recv(&mut self, cx: &mut Context<'_>) -> Poll<Option<T>> {
            poll_recv(self.0.get(), cx)
        }
        /// tokio's `poll_recv_many`: up to `limit` queued values are appended to `buf` in queue
        /// order; Ready(0) only when the channel is closed and empty (or `limit == 0`).
        pub fn poll_recv_many(&mut self, cx: &mut Context<'_>, buf: &mut Vec<T>, limit: usize) -> Poll<usize> {
            if limit == 0 {
                return Poll::Ready(0);
            }
            let c = self.0.get();
            let mut n = 0;
            while n < limit {
                match c.q.pop() {
                    Some(v) => {
                        buf.push(v);
                        n += 1;
                    }
                    None => break,
                }
            }
            if n > 0 {
                if let Some(w) = c.tx_waker.take() {
                    w.wake();
                }
                return Poll::Ready(n);
            }
            if c.rx_closed || c.senders == 0 {
                return Poll::Ready(0);
            }
            c.rx_waker = Some(cx.waker().clone());
            Poll::Pending
        }
        pub fn recv(&mut self) -> RecvFut<'_, T> {
            RecvFut { c: &self.0 }
        }
        pub fn try_recv(&mut self) -> Result<T, TryRecvError> {
            try_recv(self.0.get())
        }
        pub fn close(&mut self) {
            close(self.0.get());
        }
        pub fn len(&self) -> usize {
            self.0.get().q.len
        }
        pub fn is_empty(&self) -> bool {
            self.0.get().q.len == 0
        }
    }
    impl<T> Drop for Receiver<T> {
        fn drop(&mut self) {
            let c = self.0.get();
            close(c);
            c.q.clear();
        }
    }
    impl<T> UnboundedReceiver<T> {
        pub fn poll_recv(&mut self, cx: &mut Context<'_>) -> Poll<Option<T>> {
            poll_recv(self.0.get(), cx)
        }
        pub fn recv(&mut self) -> RecvFut<'_, T> {
            RecvFut { c: &self.0 }
        }
        pub fn try_recv(&mut self) -> Result<T, TryRecvError> {
            try_recv(self.0.get())
        }
        pub fn close(&mut self) {
            close(self.0.get());
        }
        pub fn len(&self) -> usize {
            self.0.get().q.len
        }
        pub fn is_empty(&self) -> bool {
            self.0.get().q.len == 0
        }
    }
    impl<T> Drop for UnboundedReceiver<T> {
        fn drop(&mut self) {
            let c = self.0.get();
            close(c);
            c.q.clear();
        }
    }
}

pub mod oneshot {
    use std::cell::UnsafeCell;
    use std::future::Future;
    use std::pin::Pin;
    use std::sync::Arc;
    use std::task::{Context, Poll, Waker};
    pub mod error {
        #[derive(Debug, PartialEq, Eq, Clone, Copy)]
        pub struct RecvError(pub(super) ());
        impl core::fmt::Display for RecvError {
            fn fmt(&self, _f: &mut core::fmt::Formatter<'_>) -> core::fmt::Result {
                Ok(())
            }
        }
        impl std::error::Error for RecvError {}
        #[derive(Debug, PartialEq, Eq, Clone, Copy)]
        pub enum TryRecvError {
            Empty,
            Closed,
        }
    }
    struct Inner<T> {
        v: Option<T>,
        tx_dropped: bool,
        rx_dropped: bool,
        waker: Option<Waker>,
    }
    struct Shared<T>(UnsafeCell<Inner<T>>);
    unsafe impl<T: Send> Send for Shared<T> {}
    unsafe impl<T: Send> Sync for Shared<T> {}
    impl<T> Shared<T> {
        #[allow(clippy::mut_from_ref)]
        fn get(&self) -> &mut Inner<T> {
            unsafe { &mut *self.0.get() }
        }
    }
    pub struct Sender<T>(Option<Arc<Shared<T>>>);
    pub struct Receiver<T>(Arc<Shared<T>>);
    impl<T> core::fmt::Debug for Sender<T> {
        fn fmt(&self, f: &mut core::fmt::Formatter<'_>) -> core::fmt::Result {
            f.write_str("oneshot::Sender")
        }
    }
    impl<T> core::fmt::Debug for Receiver<T> {
        fn fmt(&self, f: &mut core::fmt::Formatter<'_>) -> core::fmt::Result {
            f.write_str("oneshot::Receiver")
        }
    }
    pub fn channel<T>() -> (Sender<T>, Receiver<T>) {
        let s = Arc::new(Shared(UnsafeCell::new(Inner { v: None, tx_dropped: false, rx_dropped: false, waker: None })));
        (Sender(Some(s.clone())), Receiver(s))
    }
    impl<T> Sender<T> {
        pub fn send(mut self, v: T) -> Result<(), T> {
            let s = self.0.take().expect("sender present");
            let i = s.get();
            if i.rx_dropped {
                return Err(v);
            }
            i.v = Some(v);
            if let Some(w) = i.waker.take() {
                w.wake();
            }
            Ok(())
        }
        pub fn is_closed(&self) -> bool {
            self.0.as_ref().map_or(true, |s| s.get().rx_dropped)
        }
    }
    impl<T> Drop for Sender<T> {
        fn drop(&mut self) {
            if let Some(s) = self.0.take() {
                let i = s.get();
                i.tx_dropped = true;
                if let Some(w) = i.waker.take() {
                    w.wake();
                }
            }
        }
    }
    impl<T> Receiver<T> {
        pub fn try_recv(&mut self) -> Result<T, error::TryRecvError> {
            let i = self.0.get();
            if let Some(v) = i.v.take() {
                return Ok(v);
            }
            if i.tx_dropped { Err(error::TryRecvError::Closed) } else { Err(error::TryRecvError::Empty) }
        }
        pub fn close(&mut self) {
            self.0.get().rx_dropped = true;
        }
    }
    impl<T> Future for Receiver<T> {
        type Output = Result<T, error::RecvError>;
        fn poll(self: Pin<&mut Self>, cx: &mut Context<'_>) -> Poll<Self::Output> {
            let i = self.0.get();
            if let Some(v) = i.v.take() {
                return Poll::Ready(Ok(v));
            }
            if i.tx_dropped {
                return Poll::Ready(Err(error::RecvError(())));
            }
            i.waker = Some(cx.waker().clone());
            Poll::Pending
        }
    }
    impl<T> Drop for Receiver<T> {
        fn drop(&mut self) {
            let i = self.0.get();
            i.rx_dropped = true;
            i.v = None;
        }
    }
}
