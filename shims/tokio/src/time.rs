//! Sequential model of `tokio::time` over a VIRTUAL CLOCK owned by the harness.
//!
//! `verif::now_ms()` / `verif::advance_to(ms)` read and move the clock (milliseconds since an
//! arbitrary origin).  A timer future that is not yet due parks its `Waker` in `verif`'s
//! single timer slot (`verif::take_timer_waker`) and returns `Pending`; nothing in this module
//! ever moves the clock by itself.  Semantics follow tokio's documentation:
//! * `interval(p)`: the first tick completes immediately, the following ones at start + k*p;
//!   a tick observed more than 5 ms late is rescheduled per `MissedTickBehavior`.
//! * `sleep(d)` completes once now >= start + d; `timeout(d, f)` polls `f` first.
use std::future::Future;
use std::pin::Pin;
use std::task::{Context, Poll};
use std::time::Duration;

pub mod verif {
    use std::sync::atomic::{AtomicU64, Ordering};
    use std::sync::Mutex;
    use std::task::Waker;
    static NOW_MS: AtomicU64 = AtomicU64::new(0);
    static TIMER_WAKER: Mutex<Option<Waker>> = Mutex::new(None);
    static NEXT_DEADLINE_MS: AtomicU64 = AtomicU64::new(u64::MAX);
    pub fn now_ms() -> u64 {
        NOW_MS.load(Ordering::Relaxed)
    }
    /// Move the virtual clock forward (never backward).
    pub fn advance_to(ms: u64) {
        if ms > now_ms() {
            NOW_MS.store(ms, Ordering::Relaxed);
        }
    }
    pub(super) fn park(deadline_ms: u64, w: &Waker) {
        NEXT_DEADLINE_MS.store(deadline_ms, Ordering::Relaxed);
        *TIMER_WAKER.lock().unwrap() = Some(w.clone());
    }
    /// Earliest deadline a parked timer future is waiting for (u64::MAX = none).
    pub fn next_deadline_ms() -> u64 {
        NEXT_DEADLINE_MS.load(Ordering::Relaxed)
    }
    pub fn take_timer_waker() -> Option<Waker> {
        NEXT_DEADLINE_MS.store(u64::MAX, Ordering::Relaxed);
        TIMER_WAKER.lock().unwrap().take()
    }
}

#[derive(Clone, Copy, Debug, PartialEq, Eq, PartialOrd, Ord, Hash)]
pub struct Instant(u64);
impl Instant {
    pub fn now() -> Self {
        Instant(verif::now_ms())
    }
    pub fn duration_since(&self, earlier: Instant) -> Duration {
        Duration::from_millis(self.0.saturating_sub(earlier.0))
    }
    pub fn elapsed(&self) -> Duration {
        Instant::now().duration_since(*self)
    }
    pub fn as_millis(&self) -> u64 {
        self.0
    }
}
impl std::ops::Add<Duration> for Instant {
    type Output = Instant;
    fn add(self, d: Duration) -> Instant {
        Instant(self.0 + d.as_millis() as u64)
    }
}
impl std::ops::Sub<Instant> for Instant {
    type Output = Duration;
    fn sub(self, o: Instant) -> Duration {
        self.duration_since(o)
    }
}

#[derive(Clone, Copy, Debug, PartialEq, Eq)]
pub enum MissedTickBehavior {
    Burst,
    Delay,
    Skip,
}
#[derive(Debug)]
pub struct Interval {
    next_ms: u64,
    period_ms: u64,
    behavior: MissedTickBehavior,
}
/// Panics if `period` is zero (as tokio does).  Periods are modelled in whole milliseconds.
pub fn interval(period: Duration) -> Interval {
    assert!(!period.is_zero(), "`period` must be non-zero.");
    Interval { next_ms: verif::now_ms(), period_ms: period.as_millis() as u64, behavior: MissedTickBehavior::Burst }
}
impl Interval {
    pub fn set_missed_tick_behavior(&mut self, b: MissedTickBehavior) {
        self.behavior = b;
    }
    pub fn missed_tick_behavior(&self) -> MissedTickBehavior {
        self.behavior
    }
    pub fn period(&self) -> Duration {
        Duration::from_millis(self.period_ms)
    }
    pub fn poll_tick(&mut self, cx: &mut Context<'_>) -> Poll<Instant> {
        let now = verif::now_ms();
        let due = self.next_ms;
        if now < due {
            verif::park(due, cx.waker());
            return Poll::Pending;
        }
        self.next_ms = if now > due + 5 {
            match self.behavior {
                MissedTickBehavior::Burst => due + self.period_ms,
                MissedTickBehavior::Delay => now + self.period_ms,
                MissedTickBehavior::Skip => now + self.period_ms - ((now - due) % self.period_ms),
            }
        } else {
            due + self.period_ms
        };
        Poll::Ready(Instant(due))
    }
    pub fn tick(&mut self) -> Tick<'_> {
        Tick(self)
    }
}
pub struct Tick<'a>(&'a mut Interval);
impl Future for Tick<'_> {
    type Output = Instant;
    fn poll(self: Pin<&mut Self>, cx: &mut Context<'_>) -> Poll<Instant> {
        self.get_mut().0.poll_tick(cx)
    }
}

pub struct Sleep {
    deadline_ms: u64,
}
pub fn sleep(d: Duration) -> Sleep {
    Sleep { deadline_ms: verif::now_ms().saturating_add(d.as_millis() as u64) }
}
impl Future for Sleep {
    type Output = ();
    fn poll(self: Pin<&mut Self>, cx: &mut Context<'_>) -> Poll<()> {
        if verif::now_ms() >= self.deadline_ms {
            Poll::Ready(())
        } else {
            verif::park(self.deadline_ms, cx.waker());
            Poll::Pending
        }
    }
}

pub mod error {
    #[derive(Debug, PartialEq, Eq)]
    pub struct Elapsed(pub(super) ());
    impl core::fmt::Display for Elapsed {
        fn fmt(&self, f: &mut core::fmt::Formatter<'_>) -> core::fmt::Result {
            f.write_str("deadline has elapsed")
        }
    }
    impl std::error::Error for Elapsed {}
}
pub struct Timeout<F> {
    fut: F,
    deadline_ms: u64,
}
pub fn timeout<F: Future>(d: Duration, fut: F) -> Timeout<F> {
    Timeout { fut, deadline_ms: verif::now_ms().saturating_add(d.as_millis() as u64) }
}
impl<F: Future> Future for Timeout<F> {
    type Output = Result<F::Output, error::Elapsed>;
    fn poll(self: Pin<&mut Self>, cx: &mut Context<'_>) -> Poll<Self::Output> {
        // SAFETY: `fut` is never moved out of the pinned `Timeout`.
        let me = unsafe { self.get_unchecked_mut() };
        if let Poll::Ready(v) = unsafe { Pin::new_unchecked(&mut me.fut) }.poll(cx) {
            return Poll::Ready(Ok(v));
        }
        if verif::now_ms() >= me.deadline_ms {
            return Poll::Ready(Err(error::Elapsed(())));
        }
        verif::park(me.deadline_ms, cx.waker());
        Poll::Pending
    }
}
