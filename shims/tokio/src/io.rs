//! Sequential contract model of `tokio::io`: the traits are copied signatures, the `*Ext`
//! helpers are written from tokio's documentation (same observable results, errors are the
//! heap-free `io::Error::from(kind)` form).
use std::future::Future;
use std::io;
use std::ops::DerefMut;
use std::pin::Pin;
use std::task::{Context, Poll};

/// `ReadBuf` as documented by tokio: a buffer with a filled prefix and an initialised prefix
/// (filled <= initialised <= capacity).  `new` = fully initialised, `uninit` = nothing
/// initialised yet.
pub struct ReadBuf<'a> {
    buf: &'a mut [std::mem::MaybeUninit<u8>],
    filled: usize,
    initialized: usize,
}
impl<'a> ReadBuf<'a> {
    pub fn new(buf: &'a mut [u8]) -> Self {
        let initialized = buf.len();
        let buf = unsafe { &mut *(buf as *mut [u8] as *mut [std::mem::MaybeUninit<u8>]) };
        Self { buf, filled: 0, initialized }
    }
    pub fn uninit(buf: &'a mut [std::mem::MaybeUninit<u8>]) -> Self {
        Self { buf, filled: 0, initialized: 0 }
    }
    pub fn capacity(&self) -> usize {
        self.buf.len()
    }
    pub fn remaining(&self) -> usize {
        self.buf.len() - self.filled
    }
    pub fn filled(&self) -> &[u8] {
        unsafe { &*(&self.buf[..self.filled] as *const [std::mem::MaybeUninit<u8>] as *const [u8]) }
    }
    pub fn filled_mut(&mut self) -> &mut [u8] {
        unsafe { &mut *(&mut self.buf[..self.filled] as *mut [std::mem::MaybeUninit<u8>] as *mut [u8]) }
    }
    pub fn initialized(&self) -> &[u8] {
        unsafe { &*(&self.buf[..self.initialized] as *const [std::mem::MaybeUninit<u8>] as *const [u8]) }
    }
    pub fn initialized_mut(&mut self) -> &mut [u8] {
        unsafe { &mut *(&mut self.buf[..self.initialized] as *mut [std::mem::MaybeUninit<u8>] as *mut [u8]) }
    }
    /// # Safety
    /// The caller must not de-initialise what is initialised.
    pub unsafe fn inner_mut(&mut self) -> &mut [std::mem::MaybeUninit<u8>] {
        self.buf
    }
    /// # Safety
    /// The caller must not de-initialise what is initialised.
    pub unsafe fn unfilled_mut(&mut self) -> &mut [std::mem::MaybeUninit<u8>] {
        &mut self.buf[self.filled..]
    }
    pub fn initialize_unfilled(&mut self) -> &mut [u8] {
        let n = self.remaining();
        self.initialize_unfilled_to(n)
    }
    pub fn initialize_unfilled_to(&mut self, n: usize) -> &mut [u8] {
        assert!(self.remaining() >= n, "n overflows remaining");
        let end = self.filled + n;
        let mut i = self.initialized;
        while i < end {
            self.buf[i] = std::mem::MaybeUninit::new(0);
            i += 1;
        }
        if end > self.initialized {
            self.initialized = end;
        }
        unsafe { &mut *(&mut self.buf[self.filled..end] as *mut [std::mem::MaybeUninit<u8>] as *mut [u8]) }
    }
    pub fn clear(&mut self) {
        self.filled = 0;
    }
    pub fn advance(&mut self, n: usize) {
        let new = self.filled.checked_add(n).expect("filled overflow");
        self.set_filled(new);
    }
    pub fn set_filled(&mut self, n: usize) {
        assert!(n <= self.initialized, "filled must not become larger than initialized");
        self.filled = n;
    }
    /// # Safety
    /// The next `n` unfilled bytes must have been initialised.
    pub unsafe fn assume_init(&mut self, n: usize) {
        let new = self.filled + n;
        if new > self.initialized {
            self.initialized = new;
        }
    }
    pub fn put_slice(&mut self, s: &[u8]) {
        assert!(self.remaining() >= s.len(), "buf.len() must fit in remaining()");
        let end = self.filled + s.len();
        let dst = unsafe { &mut *(&mut self.buf[self.filled..end] as *mut [std::mem::MaybeUninit<u8>] as *mut [u8]) };
        dst.copy_from_slice(s);
        if self.initialized < end {
            self.initialized = end;
        }
        self.filled = end;
    }
}

pub trait AsyncRead {
    fn poll_read(self: Pin<&mut Self>, cx: &mut Context<'_>, buf: &mut ReadBuf<'_>) -> Poll<io::Result<()>>;
}
pub trait AsyncBufRead: AsyncRead {
    fn poll_fill_buf(self: Pin<&mut Self>, cx: &mut Context<'_>) -> Poll<io::Result<&[u8]>>;
    fn consume(self: Pin<&mut Self>, amt: usize);
}
pub trait AsyncWrite {
    fn poll_write(self: Pin<&mut Self>, cx: &mut Context<'_>, buf: &[u8]) -> Poll<io::Result<usize>>;
    fn poll_flush(self: Pin<&mut Self>, cx: &mut Context<'_>) -> Poll<io::Result<()>>;
    fn poll_shutdown(self: Pin<&mut Self>, cx: &mut Context<'_>) -> Poll<io::Result<()>>;
    fn poll_write_vectored(self: Pin<&mut Self>, cx: &mut Context<'_>, bufs: &[io::IoSlice<'_>]) -> Poll<io::Result<usize>> {
        let buf = bufs.iter().find(|b| !b.is_empty()).map_or(&[][..], |b| &**b);
        self.poll_write(cx, buf)
    }
    fn is_write_vectored(&self) -> bool {
        false
    }
}

impl<P> AsyncRead for Pin<P>
where
    P: DerefMut + Unpin,
    P::Target: AsyncRead,
{
    fn poll_read(self: Pin<&mut Self>, cx: &mut Context<'_>, buf: &mut ReadBuf<'_>) -> Poll<io::Result<()>> {
        self.get_mut().as_mut().poll_read(cx, buf)
    }
}
impl<T: ?Sized + AsyncRead + Unpin> AsyncRead for &mut T {
    fn poll_read(mut self: Pin<&mut Self>, cx: &mut Context<'_>, buf: &mut ReadBuf<'_>) -> Poll<io::Result<()>> {
        Pin::new(&mut **self).poll_read(cx, buf)
    }
}
impl<T: ?Sized + AsyncBufRead + Unpin> AsyncBufRead for &mut T {
    fn poll_fill_buf(self: Pin<&mut Self>, cx: &mut Context<'_>) -> Poll<io::Result<&[u8]>> {
        Pin::new(&mut **self.get_mut()).poll_fill_buf(cx)
    }
    fn consume(mut self: Pin<&mut Self>, amt: usize) {
        Pin::new(&mut **self).consume(amt)
    }
}
impl<T: ?Sized + AsyncWrite + Unpin> AsyncWrite for &mut T {
    fn poll_write(mut self: Pin<&mut Self>, cx: &mut Context<'_>, buf: &[u8]) -> Poll<io::Result<usize>> {
        Pin::new(&mut **self).poll_write(cx, buf)
    }
    fn poll_flush(mut self: Pin<&mut Self>, cx: &mut Context<'_>) -> Poll<io::Result<()>> {
        Pin::new(&mut **self).poll_flush(cx)
    }
    fn poll_shutdown(mut self: Pin<&mut Self>, cx: &mut Context<'_>) -> Poll<io::Result<()>> {
        Pin::new(&mut **self).poll_shutdown(cx)
    }
}

// ---------------------------------------------------------------------------------------
// std::io::Cursor, as in tokio (always ready, never fails)
// ---------------------------------------------------------------------------------------
impl<T: AsRef<[u8]> + Unpin> AsyncRead for io::Cursor<T> {
    fn poll_read(mut self: Pin<&mut Self>, _cx: &mut Context<'_>, buf: &mut ReadBuf<'_>) -> Poll<io::Result<()>> {
        let pos = self.position();
        let slice: &[u8] = (*self).get_ref().as_ref();
        if pos > slice.len() as u64 {
            return Poll::Ready(Ok(()));
        }
        let start = pos as usize;
        let amt = std::cmp::min(slice.len() - start, buf.remaining());
        let end = start + amt;
        buf.put_slice(&slice[start..end]);
        self.set_position(end as u64);
        Poll::Ready(Ok(()))
    }
}
impl<T: AsRef<[u8]> + Unpin> AsyncBufRead for io::Cursor<T> {
    fn poll_fill_buf(self: Pin<&mut Self>, _cx: &mut Context<'_>) -> Poll<io::Result<&[u8]>> {
        let this = self.get_mut();
        let pos = this.position();
        let slice: &[u8] = this.get_ref().as_ref();
        let start = std::cmp::min(pos, slice.len() as u64) as usize;
        Poll::Ready(Ok(&slice[start..]))
    }
    fn consume(mut self: Pin<&mut Self>, amt: usize) {
        let p = self.position();
        self.set_position(p + amt as u64);
    }
}
impl AsyncWrite for io::Cursor<Vec<u8>> {
    fn poll_write(self: Pin<&mut Self>, _cx: &mut Context<'_>, buf: &[u8]) -> Poll<io::Result<usize>> {
        Poll::Ready(io::Write::write(self.get_mut(), buf))
    }
    fn poll_flush(self: Pin<&mut Self>, _cx: &mut Context<'_>) -> Poll<io::Result<()>> {
        Poll::Ready(Ok(()))
    }
    fn poll_shutdown(self: Pin<&mut Self>, _cx: &mut Context<'_>) -> Poll<io::Result<()>> {
        Poll::Ready(Ok(()))
    }
}

// ---------------------------------------------------------------------------------------
// AsyncReadExt
// ---------------------------------------------------------------------------------------
fn eof() -> io::Error {
    io::Error::from(io::ErrorKind::UnexpectedEof)
}

/// Future of `read_exact`: fills the whole buffer or fails with `UnexpectedEof`.
pub struct ReadExact<'a, R: ?Sized> {
    r: &'a mut R,
    buf: &'a mut [u8],
    filled: usize,
}
impl<R: AsyncRead + Unpin + ?Sized> Future for ReadExact<'_, R> {
    type Output = io::Result<usize>;
    fn poll(self: Pin<&mut Self>, cx: &mut Context<'_>) -> Poll<Self::Output> {
        let me = self.get_mut();
        loop {
            if me.filled == me.buf.len() {
                return Poll::Ready(Ok(me.filled));
            }
            let mut rb = ReadBuf::new(&mut me.buf[me.filled..]);
            match Pin::new(&mut *me.r).poll_read(cx, &mut rb) {
                Poll::Pending => return Poll::Pending,
                Poll::Ready(Err(e)) => return Poll::Ready(Err(e)),
                Poll::Ready(Ok(())) => {}
            }
            let n = rb.filled().len();
            if n == 0 {
                return Poll::Ready(Err(eof()));
            }
            me.filled += n;
        }
    }
}

/// Future of `read`: one successful `poll_read`.
pub struct Read<'a, R: ?Sized> {
    r: &'a mut R,
    buf: &'a mut [u8],
}
impl<R: AsyncRead + Unpin + ?Sized> Future for Read<'_, R> {
    type Output = io::Result<usize>;
    fn poll(self: Pin<&mut Self>, cx: &mut Context<'_>) -> Poll<Self::Output> {
        let me = self.get_mut();
        let mut rb = ReadBuf::new(&mut *me.buf);
        match Pin::new(&mut *me.r).poll_read(cx, &mut rb) {
            Poll::Pending => Poll::Pending,
            Poll::Ready(Err(e)) => Poll::Ready(Err(e)),
            Poll::Ready(Ok(())) => Poll::Ready(Ok(rb.filled().len())),
        }
    }
}

/// Future of `read_u8/u16/u32/...`: big-endian integer of N bytes.
pub struct ReadInt<'a, R: ?Sized, const N: usize> {
    r: &'a mut R,
    buf: [u8; N],
    filled: usize,
}
impl<R: AsyncRead + Unpin + ?Sized, const N: usize> ReadInt<'_, R, N> {
    fn poll_bytes(&mut self, cx: &mut Context<'_>) -> Poll<io::Result<[u8; N]>> {
        loop {
            if self.filled == N {
                return Poll::Ready(Ok(self.buf));
            }
            let mut rb = ReadBuf::new(&mut self.buf[self.filled..]);
            match Pin::new(&mut *self.r).poll_read(cx, &mut rb) {
                Poll::Pending => return Poll::Pending,
                Poll::Ready(Err(e)) => return Poll::Ready(Err(e)),
                Poll::Ready(Ok(())) => {}
            }
            let n = rb.filled().len();
            if n == 0 {
                return Poll::Ready(Err(eof()));
            }
            self.filled += n;
        }
    }
}
pub struct ReadU8<'a, R: ?Sized>(ReadInt<'a, R, 1>);
pub struct ReadU16<'a, R: ?Sized>(ReadInt<'a, R, 2>);
pub struct ReadU32<'a, R: ?Sized>(ReadInt<'a, R, 4>);
pub struct ReadU64<'a, R: ?Sized>(ReadInt<'a, R, 8>);
pub struct ReadU128<'a, R: ?Sized>(ReadInt<'a, R, 16>);
macro_rules! int_future {
    ($name:ident, $ty:ty) => {
        impl<R: AsyncRead + Unpin + ?Sized> Future for $name<'_, R> {
            type Output = io::Result<$ty>;
            fn poll(self: Pin<&mut Self>, cx: &mut Context<'_>) -> Poll<Self::Output> {
                match self.get_mut().0.poll_bytes(cx) {
                    Poll::Pending => Poll::Pending,
                    Poll::Ready(Err(e)) => Poll::Ready(Err(e)),
                    Poll::Ready(Ok(b)) => Poll::Ready(Ok(<$ty>::from_be_bytes(b))),
                }
            }
        }
    };
}
int_future!(ReadU8, u8);
int_future!(ReadU16, u16);
int_future!(ReadU32, u32);
int_future!(ReadU64, u64);
int_future!(ReadU128, u128);

/// `AsyncReadExt::take`: an adaptor that reads at most `limit` bytes, then reports end of file.
pub struct Take<R> {
    inner: R,
    limit: u64,
}
impl<R> Take<R> {
    pub fn limit(&self) -> u64 {
        self.limit
    }
    pub fn set_limit(&mut self, limit: u64) {
        self.limit = limit;
    }
    pub fn get_ref(&self) -> &R {
        &self.inner
    }
    pub fn get_mut(&mut self) -> &mut R {
        &mut self.inner
    }
    pub fn into_inner(self) -> R {
        self.inner
    }
}
impl<R: AsyncRead + Unpin> AsyncRead for Take<R> {
    fn poll_read(self: Pin<&mut Self>, cx: &mut Context<'_>, buf: &mut ReadBuf<'_>) -> Poll<io::Result<()>> {
        let me = self.get_mut();
        if me.limit == 0 {
            return Poll::Ready(Ok(()));
        }
        let room = buf.remaining();
        let want = if (room as u64) < me.limit { room } else { me.limit as usize };
        let mut tmp = [0u8; 16];
        let want = if want < 16 { want } else { 16 };
        let mut rb = ReadBuf::new(&mut tmp[..want]);
        match Pin::new(&mut me.inner).poll_read(cx, &mut rb) {
            Poll::Pending => Poll::Pending,
            Poll::Ready(Err(e)) => Poll::Ready(Err(e)),
            Poll::Ready(Ok(())) => {
                let n = rb.filled().len();
                buf.put_slice(&tmp[..n]);
                me.limit -= n as u64;
                Poll::Ready(Ok(()))
            }
        }
    }
}
/// tokio implements AsyncBufRead for `Take<R: AsyncBufRead>`: the inner buffer cut at the limit.
impl<R: AsyncBufRead + Unpin> AsyncBufRead for Take<R> {
    fn poll_fill_buf(self: Pin<&mut Self>, cx: &mut Context<'_>) -> Poll<io::Result<&[u8]>> {
        let me = self.get_mut();
        if me.limit == 0 {
            return Poll::Ready(Ok(&[]));
        }
        match Pin::new(&mut me.inner).poll_fill_buf(cx) {
            Poll::Pending => Poll::Pending,
            Poll::Ready(Err(e)) => Poll::Ready(Err(e)),
            Poll::Ready(Ok(b)) => {
                let cap = if (b.len() as u64) < me.limit { b.len() } else { me.limit as usize };
                Poll::Ready(Ok(&b[..cap]))
            }
        }
    }
    fn consume(self: Pin<&mut Self>, amt: usize) {
        let me = self.get_mut();
        let amt = if (amt as u64) < me.limit { amt } else { me.limit as usize };
        me.limit -= amt as u64;
        Pin::new(&mut me.inner).consume(amt);
    }
}
/// Future of `read_to_end`: reads until end of file, appending to the vector; yields the
/// number of bytes read.  End of file is NOT an error.
pub struct ReadToEnd<'a, R: ?Sized> {
    r: &'a mut R,
    out: &'a mut Vec<u8>,
    n: usize,
}
impl<R: AsyncRead + Unpin + ?Sized> Future for ReadToEnd<'_, R> {
    type Output = io::Result<usize>;
    fn poll(self: Pin<&mut Self>, cx: &mut Context<'_>) -> Poll<Self::Output> {
        let me = self.get_mut();
        loop {
            let mut tmp = [0u8; 16];
            let mut rb = ReadBuf::new(&mut tmp[..]);
            match Pin::new(&mut *me.r).poll_read(cx, &mut rb) {
                Poll::Pending => return Poll::Pending,
                Poll::Ready(Err(e)) => return Poll::Ready(Err(e)),
                Poll::Ready(Ok(())) => {}
            }
            let k = rb.filled().len();
            if k == 0 {
                return Poll::Ready(Ok(me.n));
            }
            me.out.extend_from_slice(&tmp[..k]);
            me.n += k;
        }
    }
}

pub trait AsyncReadExt: AsyncRead {
    fn take(self, limit: u64) -> Take<Self>
    where
        Self: Sized,
    {
        Take { inner: self, limit }
    }
    fn read_to_end<'a>(&'a mut self, buf: &'a mut Vec<u8>) -> ReadToEnd<'a, Self>
    where
        Self: Unpin,
    {
        ReadToEnd { r: self, out: buf, n: 0 }
    }
    fn read<'a>(&'a mut self, buf: &'a mut [u8]) -> Read<'a, Self>
    where
        Self: Unpin,
    {
        Read { r: self, buf }
    }
    fn read_exact<'a>(&'a mut self, buf: &'a mut [u8]) -> ReadExact<'a, Self>
    where
        Self: Unpin,
    {
        ReadExact { r: self, buf, filled: 0 }
    }
    fn read_u8(&mut self) -> ReadU8<'_, Self>
    where
        Self: Unpin,
    {
        ReadU8(ReadInt { r: self, buf: [0; 1], filled: 0 })
    }
    fn read_u16(&mut self) -> ReadU16<'_, Self>
    where
        Self: Unpin,
    {
        ReadU16(ReadInt { r: self, buf: [0; 2], filled: 0 })
    }
    fn read_u32(&mut self) -> ReadU32<'_, Self>
    where
        Self: Unpin,
    {
        ReadU32(ReadInt { r: self, buf: [0; 4], filled: 0 })
    }
    fn read_u64(&mut self) -> ReadU64<'_, Self>
    where
        Self: Unpin,
    {
        ReadU64(ReadInt { r: self, buf: [0; 8], filled: 0 })
    }
    fn read_u128(&mut self) -> ReadU128<'_, Self>
    where
        Self: Unpin,
    {
        ReadU128(ReadInt { r: self, buf: [0; 16], filled: 0 })
    }
}
impl<R: AsyncRead + ?Sized> AsyncReadExt for R {}

// ---------------------------------------------------------------------------------------
// AsyncBufReadExt
// ---------------------------------------------------------------------------------------
/// Future of `read_until`: appends up to and including the delimiter, or up to EOF.
pub struct ReadUntil<'a, R: ?Sized> {
    r: &'a mut R,
    delim: u8,
    out: &'a mut Vec<u8>,
    read: usize,
}
impl<R: AsyncBufRead + Unpin + ?Sized> Future for ReadUntil<'_, R> {
    type Output = io::Result<usize>;
    fn poll(self: Pin<&mut Self>, cx: &mut Context<'_>) -> Poll<Self::Output> {
        let me = self.get_mut();
        loop {
            let (done, used) = {
                let available = match Pin::new(&mut *me.r).poll_fill_buf(cx) {
                    Poll::Pending => return Poll::Pending,
                    Poll::Ready(Err(e)) => return Poll::Ready(Err(e)),
                    Poll::Ready(Ok(a)) => a,
                };
                let mut i = 0;
                let mut found = false;
                while i < available.len() {
                    let b = available[i];
                    me.out.push(b);
                    i += 1;
                    if b == me.delim {
                        found = true;
                        break;
                    }
                }
                (found, i)
            };
            Pin::new(&mut *me.r).consume(used);
            me.read += used;
            if done || used == 0 {
                let n = me.read;
                me.read = 0;
                return Poll::Ready(Ok(n));
            }
        }
    }
}
pub trait AsyncBufReadExt: AsyncBufRead {
    fn read_until<'a>(&'a mut self, byte: u8, buf: &'a mut Vec<u8>) -> ReadUntil<'a, Self>
    where
        Self: Unpin,
    {
        ReadUntil { r: self, delim: byte, out: buf, read: 0 }
    }
}
impl<R: AsyncBufRead + ?Sized> AsyncBufReadExt for R {}

// ---------------------------------------------------------------------------------------
// AsyncWriteExt
// ---------------------------------------------------------------------------------------
pub struct WriteAll<'a, W: ?Sized> {
    w: &'a mut W,
    buf: &'a [u8],
}
impl<W: AsyncWrite + Unpin + ?Sized> Future for WriteAll<'_, W> {
    type Output = io::Result<()>;
    fn poll(self: Pin<&mut Self>, cx: &mut Context<'_>) -> Poll<Self::Output> {
        let me = self.get_mut();
        while !me.buf.is_empty() {
            let n = match Pin::new(&mut *me.w).poll_write(cx, me.buf) {
                Poll::Pending => return Poll::Pending,
                Poll::Ready(Err(e)) => return Poll::Ready(Err(e)),
                Poll::Ready(Ok(n)) => n,
            };
            if n == 0 {
                return Poll::Ready(Err(io::Error::from(io::ErrorKind::WriteZero)));
            }
            me.buf = &me.buf[n..];
        }
        Poll::Ready(Ok(()))
    }
}
pub struct Write<'a, W: ?Sized> {
    w: &'a mut W,
    buf: &'a [u8],
}
impl<W: AsyncWrite + Unpin + ?Sized> Future for Write<'_, W> {
    type Output = io::Result<usize>;
    fn poll(self: Pin<&mut Self>, cx: &mut Context<'_>) -> Poll<Self::Output> {
        let me = self.get_mut();
        Pin::new(&mut *me.w).poll_write(cx, me.buf)
    }
}
pub struct Flush<'a, W: ?Sized> {
    w: &'a mut W,
}
impl<W: AsyncWrite + Unpin + ?Sized> Future for Flush<'_, W> {
    type Output = io::Result<()>;
    fn poll(self: Pin<&mut Self>, cx: &mut Context<'_>) -> Poll<Self::Output> {
        Pin::new(&mut *self.get_mut().w).poll_flush(cx)
    }
}
pub struct Shutdown<'a, W: ?Sized> {
    w: &'a mut W,
}
impl<W: AsyncWrite + Unpin + ?Sized> Future for Shutdown<'_, W> {
    type Output = io::Result<()>;
    fn poll(self: Pin<&mut Self>, cx: &mut Context<'_>) -> Poll<Self::Output> {
        Pin::new(&mut *self.get_mut().w).poll_shutdown(cx)
    }
}
pub trait AsyncWriteExt: AsyncWrite {
    fn write<'a>(&'a mut self, src: &'a [u8]) -> Write<'a, Self>
    where
        Self: Unpin,
    {
        Write { w: self, buf: src }
    }
    fn write_all<'a>(&'a mut self, src: &'a [u8]) -> WriteAll<'a, Self>
    where
        Self: Unpin,
    {
        WriteAll { w: self, buf: src }
    }
    fn flush(&mut self) -> Flush<'_, Self>
    where
        Self: Unpin,
    {
        Flush { w: self }
    }
    fn shutdown(&mut self) -> Shutdown<'_, Self>
    where
        Self: Unpin,
    {
        Shutdown { w: self }
    }
}
impl<W: AsyncWrite + ?Sized> AsyncWriteExt for W {}

// ---------------------------------------------------------------------------------------
// BufReader (only what penguin-mux's `into_copy_bidirectional` needs: a one-chunk buffer)
// ---------------------------------------------------------------------------------------
const BUFREADER_CAP: usize = 4;
pub struct BufReader<R> {
    inner: R,
    buf: [u8; BUFREADER_CAP],
    pos: usize,
    cap: usize,
}
impl<R: AsyncRead> BufReader<R> {
    pub fn new(inner: R) -> Self {
        Self { inner, buf: [0; BUFREADER_CAP], pos: 0, cap: 0 }
    }
    pub fn get_ref(&self) -> &R {
        &self.inner
    }
    pub fn get_mut(&mut self) -> &mut R {
        &mut self.inner
    }
    pub fn into_inner(self) -> R {
        self.inner
    }
}
impl<R: AsyncRead> AsyncRead for BufReader<R> {
    fn poll_read(self: Pin<&mut Self>, cx: &mut Context<'_>, buf: &mut ReadBuf<'_>) -> Poll<io::Result<()>> {
        // SAFETY: `inner` is never moved out of the pinned `BufReader`.
        let me = unsafe { self.get_unchecked_mut() };
        if me.pos == me.cap {
            return unsafe { Pin::new_unchecked(&mut me.inner) }.poll_read(cx, buf);
        }
        let amt = std::cmp::min(me.cap - me.pos, buf.remaining());
        buf.put_slice(&me.buf[me.pos..me.pos + amt]);
        me.pos += amt;
        Poll::Ready(Ok(()))
    }
}
impl<R: AsyncRead> AsyncBufRead for BufReader<R> {
    fn poll_fill_buf(self: Pin<&mut Self>, cx: &mut Context<'_>) -> Poll<io::Result<&[u8]>> {
        let me = unsafe { self.get_unchecked_mut() };
        if me.pos >= me.cap {
            let mut rb = ReadBuf::new(&mut me.buf);
            match unsafe { Pin::new_unchecked(&mut me.inner) }.poll_read(cx, &mut rb) {
                Poll::Pending => return Poll::Pending,
                Poll::Ready(Err(e)) => return Poll::Ready(Err(e)),
                Poll::Ready(Ok(())) => {}
            }
            me.cap = rb.filled().len();
            me.pos = 0;
        }
        Poll::Ready(Ok(&me.buf[me.pos..me.cap]))
    }
    fn consume(self: Pin<&mut Self>, amt: usize) {
        let me = unsafe { self.get_unchecked_mut() };
        me.pos = std::cmp::min(me.pos + amt, me.cap);
    }
}
impl<R: AsyncRead + AsyncWrite> AsyncWrite for BufReader<R> {
    fn poll_write(self: Pin<&mut Self>, cx: &mut Context<'_>, buf: &[u8]) -> Poll<io::Result<usize>> {
        unsafe { self.map_unchecked_mut(|s| &mut s.inner) }.poll_write(cx, buf)
    }
    fn poll_flush(self: Pin<&mut Self>, cx: &mut Context<'_>) -> Poll<io::Result<()>> {
        unsafe { self.map_unchecked_mut(|s| &mut s.inner) }.poll_flush(cx)
    }
    fn poll_shutdown(self: Pin<&mut Self>, cx: &mut Context<'_>) -> Poll<io::Result<()>> {
        unsafe { self.map_unchecked_mut(|s| &mut s.inner) }.poll_shutdown(cx)
    }
}
