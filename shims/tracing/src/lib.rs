//! Logging stub for symbolic execution: every event macro expands to a *scheduling point*
//! and nothing else; `#[instrument]` is the identity.
//!
//! A scheduling point is a no-op unless a harness has armed it (`sched::arm()`); when armed it
//! calls the callback the harness installed with `sched::set_hook` (see
//! /verif/harness/mux/common.rs).  C12 uses this to run the connection task's
//! `acknowledge` / `disallow_write` *between* two statements of the writer's poll, at the
//! places where the real code logs.  Arguments of the macros are not evaluated.
#![no_std]
#[cfg(feature = "attributes")]
pub use tracing_attributes::instrument;

pub mod sched {
    use core::sync::atomic::{AtomicBool, AtomicUsize, Ordering};
    static ARMED: AtomicBool = AtomicBool::new(false);
    static POINTS: AtomicUsize = AtomicUsize::new(0);
    // the harness-provided callback (a plain fn pointer: Kani cannot link `extern "Rust"`
    // declarations across crates)
    static mut HOOK: Option<fn(usize)> = None;
    pub fn set_hook(f: fn(usize)) {
        unsafe { HOOK = Some(f) };
    }
    pub fn arm() {
        POINTS.store(0, Ordering::Relaxed);
        ARMED.store(true, Ordering::Relaxed);
    }
    pub fn disarm() {
        ARMED.store(false, Ordering::Relaxed);
    }
    /// Number of scheduling points passed since `arm()`.
    pub fn points() -> usize {
        POINTS.load(Ordering::Relaxed)
    }
    #[inline(never)]
    pub fn point() {
        if ARMED.load(Ordering::Relaxed) {
            let i = POINTS.fetch_add(1, Ordering::Relaxed);
            // not re-entrant: the injected code may log as well
            ARMED.store(false, Ordering::Relaxed);
            if let Some(f) = unsafe { HOOK } {
                f(i);
            }
            ARMED.store(true, Ordering::Relaxed);
        }
    }
}

#[macro_export]
macro_rules! trace { ($($t:tt)*) => {{ $crate::sched::point(); }}; }
#[macro_export]
macro_rules! debug { ($($t:tt)*) => {{ $crate::sched::point(); }}; }
#[macro_export]
macro_rules! info { ($($t:tt)*) => {{ $crate::sched::point(); }}; }
#[macro_export]
macro_rules! warn { ($($t:tt)*) => {{ $crate::sched::point(); }}; }
#[macro_export]
macro_rules! error { ($($t:tt)*) => {{ $crate::sched::point(); }}; }
