//! Logging stub: every event macro expands to nothing, `#[instrument]` is the identity.
#![no_std]
#[cfg(feature = "attributes")]
pub use tracing_attributes::instrument;
#[macro_export] macro_rules! trace { ($($t:tt)*) => {{}}; }
#[macro_export] macro_rules! debug { ($($t:tt)*) => {{}}; }
#[macro_export] macro_rules! info { ($($t:tt)*) => {{}}; }
#[macro_export] macro_rules! warn { ($($t:tt)*) => {{}}; }
#[macro_export] macro_rules! error { ($($t:tt)*) => {{}}; }
