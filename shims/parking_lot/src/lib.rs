//! Sequential contract model of `parking_lot::{Mutex, RwLock}`.
//!
//! There is exactly one thread in the symbolic execution, so a lock is never contended by
//! another party; what CAN happen is that the code under test tries to take a lock it
//! already holds (the self-deadlock the comment in `process_frame` says was refactored away).
//! The model keeps the lock state in a `Cell` and turns such an acquisition into a panic,
//! i.e. into a reported failure instead of a silent hang.  (The real fast paths are CAS loops
//! whose outcome the symbolic execution does not fold; every acquisition then also explored
//! the spinning slow path: ~x20 cost.)
use std::cell::{Cell, UnsafeCell};
use std::fmt;
use std::ops::{Deref, DerefMut};

pub struct Mutex<T: ?Sized> {
    held: Cell<bool>,
    data: UnsafeCell<T>,
}
unsafe impl<T: ?Sized + Send> Send for Mutex<T> {}
unsafe impl<T: ?Sized + Send> Sync for Mutex<T> {}
pub struct MutexGuard<'a, T: ?Sized> {
    m: &'a Mutex<T>,
}
impl<T> Mutex<T> {
    pub const fn new(v: T) -> Self {
        Self { held: Cell::new(false), data: UnsafeCell::new(v) }
    }
    pub fn into_inner(self) -> T {
        self.data.into_inner()
    }
}
impl<T: ?Sized> Mutex<T> {
    pub fn lock(&self) -> MutexGuard<'_, T> {
        assert!(!self.held.get(), "parking_lot::Mutex locked while already held (self-deadlock in sequential execution)");
        self.held.set(true);
        MutexGuard { m: self }
    }
    pub fn try_lock(&self) -> Option<MutexGuard<'_, T>> {
        if self.held.get() {
            None
        } else {
            self.held.set(true);
            Some(MutexGuard { m: self })
        }
    }
    pub fn is_locked(&self) -> bool {
        self.held.get()
    }
    pub fn get_mut(&mut self) -> &mut T {
        self.data.get_mut()
    }
}
impl<T: ?Sized> Drop for MutexGuard<'_, T> {
    fn drop(&mut self) {
        self.m.held.set(false);
    }
}
impl<T: ?Sized> Deref for MutexGuard<'_, T> {
    type Target = T;
    fn deref(&self) -> &T {
        unsafe { &*self.m.data.get() }
    }
}
impl<T: ?Sized> DerefMut for MutexGuard<'_, T> {
    fn deref_mut(&mut self) -> &mut T {
        unsafe { &mut *self.m.data.get() }
    }
}
impl<T: ?Sized> fmt::Debug for Mutex<T> {
    fn fmt(&self, f: &mut fmt::Formatter<'_>) -> fmt::Result {
        f.write_str("Mutex")
    }
}
impl<T: Default> Default for Mutex<T> {
    fn default() -> Self {
        Self::new(T::default())
    }
}

/// `state`: -1 = write-locked, n >= 0 = n readers.
pub struct RwLock<T: ?Sized> {
    state: Cell<isize>,
    data: UnsafeCell<T>,
}
unsafe impl<T: ?Sized + Send> Send for RwLock<T> {}
unsafe impl<T: ?Sized + Send + Sync> Sync for RwLock<T> {}
pub struct RwLockReadGuard<'a, T: ?Sized> {
    l: &'a RwLock<T>,
}
pub struct RwLockWriteGuard<'a, T: ?Sized> {
    l: &'a RwLock<T>,
}
impl<T> RwLock<T> {
    pub const fn new(v: T) -> Self {
        Self { state: Cell::new(0), data: UnsafeCell::new(v) }
    }
    pub fn into_inner(self) -> T {
        self.data.into_inner()
    }
}
impl<T: ?Sized> RwLock<T> {
    pub fn read(&self) -> RwLockReadGuard<'_, T> {
        assert!(self.state.get() >= 0, "parking_lot::RwLock read-locked while write-locked by the same thread (self-deadlock)");
        self.state.set(self.state.get() + 1);
        RwLockReadGuard { l: self }
    }
    pub fn write(&self) -> RwLockWriteGuard<'_, T> {
        assert!(self.state.get() == 0, "parking_lot::RwLock write-locked while already locked by the same thread (self-deadlock)");
        self.state.set(-1);
        RwLockWriteGuard { l: self }
    }
    pub fn is_locked(&self) -> bool {
        self.state.get() != 0
    }
    pub fn get_mut(&mut self) -> &mut T {
        self.data.get_mut()
    }
}
impl<T: ?Sized> Drop for RwLockReadGuard<'_, T> {
    fn drop(&mut self) {
        self.l.state.set(self.l.state.get() - 1);
    }
}
impl<T: ?Sized> Drop for RwLockWriteGuard<'_, T> {
    fn drop(&mut self) {
        self.l.state.set(0);
    }
}
impl<T: ?Sized> Deref for RwLockReadGuard<'_, T> {
    type Target = T;
    fn deref(&self) -> &T {
        unsafe { &*self.l.data.get() }
    }
}
impl<T: ?Sized> Deref for RwLockWriteGuard<'_, T> {
    type Target = T;
    fn deref(&self) -> &T {
        unsafe { &*self.l.data.get() }
    }
}
impl<T: ?Sized> DerefMut for RwLockWriteGuard<'_, T> {
    fn deref_mut(&mut self) -> &mut T {
        unsafe { &mut *self.l.data.get() }
    }
}
impl<T: ?Sized> fmt::Debug for RwLock<T> {
    fn fmt(&self, f: &mut fmt::Formatter<'_>) -> fmt::Result {
        f.write_str("RwLock")
    }
}
impl<T: Default> Default for RwLock<T> {
    fn default() -> Self {
        Self::new(T::default())
    }
}
