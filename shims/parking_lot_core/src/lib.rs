//! Sequential stub of parking_lot_core for symbolic execution: no thread ever
//! parks; reaching `park` means the (single) thread would block forever.
use std::time::Instant;
#[derive(Copy, Clone, Eq, PartialEq, Debug)]
pub struct ParkToken(pub usize);
#[derive(Copy, Clone, Eq, PartialEq, Debug)]
pub struct UnparkToken(pub usize);
pub const DEFAULT_UNPARK_TOKEN: UnparkToken = UnparkToken(0);
pub const DEFAULT_PARK_TOKEN: ParkToken = ParkToken(0);
#[derive(Copy, Clone, Eq, PartialEq, Debug)]
pub enum ParkResult { Unparked(UnparkToken), Invalid, TimedOut }
impl ParkResult { pub fn is_unparked(self) -> bool { matches!(self, ParkResult::Unparked(_)) } }
#[derive(Copy, Clone, Default, Eq, PartialEq, Debug)]
pub struct UnparkResult { pub unparked_threads: usize, pub requeued_threads: usize, pub have_more_threads: bool, pub be_fair: bool, _sealed: () }
#[derive(Copy, Clone, Eq, PartialEq, Debug)]
pub enum RequeueOp { Abort, UnparkOneRequeueRest, RequeueAll, UnparkOne, RequeueOne }
#[derive(Copy, Clone, Eq, PartialEq, Debug)]
pub enum FilterOp { Unpark, Skip, Stop }
pub unsafe fn park(_key: usize, validate: impl FnOnce() -> bool, _before_sleep: impl FnOnce(), _timed_out: impl FnOnce(usize, bool), _park_token: ParkToken, _timeout: Option<Instant>) -> ParkResult {
    if !validate() { return ParkResult::Invalid; }
    panic!("parking_lot_core::park reached: a lock is contended in sequential execution (self-deadlock)");
}
pub unsafe fn unpark_one(_key: usize, callback: impl FnOnce(UnparkResult) -> UnparkToken) -> UnparkResult { let r = UnparkResult::default(); callback(r); r }
pub unsafe fn unpark_all(_key: usize, _unpark_token: UnparkToken) -> usize { 0 }
pub unsafe fn unpark_requeue(_key_from: usize, _key_to: usize, validate: impl FnOnce() -> RequeueOp, callback: impl FnOnce(RequeueOp, UnparkResult) -> UnparkToken) -> UnparkResult { let op = validate(); let r = UnparkResult::default(); callback(op, r); r }
pub unsafe fn unpark_filter(_key: usize, _filter: impl FnMut(ParkToken) -> FilterOp, callback: impl FnOnce(UnparkResult) -> UnparkToken) -> UnparkResult { let r = UnparkResult::default(); callback(r); r }
#[derive(Default)]
pub struct SpinWait { counter: u32 }
impl SpinWait {
    pub fn new() -> Self { Self::default() }
    pub fn reset(&mut self) { self.counter = 0; }
    pub fn spin(&mut self) -> bool { false }
    pub fn spin_no_yield(&mut self) {}
}
pub mod deadlock {
    pub unsafe fn acquire_resource(_key: usize) {}
    pub unsafe fn release_resource(_key: usize) {}
}
