//! Contract-level model of hashbrown::HashMap for bounded symbolic execution:
//! a fixed inline association list (no heap, no hashing). Capacity bound MAPCAP.
#![no_std]
use core::hash::{BuildHasher, Hash};
use core::marker::PhantomData;
pub const MAPCAP: usize = 3;
#[derive(Default, Clone, Copy, Debug)]
pub struct DefaultHashBuilder;
pub struct HashMap<K, V, S = DefaultHashBuilder> { slots: [Option<(K, V)>; MAPCAP], len: usize, _s: PhantomData<S> }
impl<K: core::fmt::Debug, V: core::fmt::Debug, S> core::fmt::Debug for HashMap<K, V, S> { fn fmt(&self, f: &mut core::fmt::Formatter<'_>) -> core::fmt::Result { f.write_str("HashMap") } }
impl<K: Eq + Hash, V, S> HashMap<K, V, S> {
    pub fn with_hasher(_s: S) -> Self { Self { slots: [const { None }; MAPCAP], len: 0, _s: PhantomData } }
    pub fn len(&self) -> usize { self.len }
    pub fn is_empty(&self) -> bool { self.len == 0 }
    fn idx(&self, k: &K) -> Option<usize> {
        let mut i = 0;
        while i < MAPCAP { if let Some((kk, _)) = &self.slots[i] { if kk == k { return Some(i); } } i += 1; }
        None
    }
    pub fn contains_key(&self, k: &K) -> bool { self.idx(k).is_some() }
    pub fn get(&self, k: &K) -> Option<&V> { match self.idx(k) { Some(i) => self.slots[i].as_ref().map(|(_, v)| v), None => None } }
    pub fn get_mut(&mut self, k: &K) -> Option<&mut V> { match self.idx(k) { Some(i) => self.slots[i].as_mut().map(|(_, v)| v), None => None } }
    pub fn insert(&mut self, k: K, v: V) -> Option<V> {
        if let Some(i) = self.idx(&k) { let old = core::mem::replace(&mut self.slots[i], Some((k, v))); return old.map(|(_, v)| v); }
        let mut i = 0;
        while i < MAPCAP { if self.slots[i].is_none() { core::mem::forget(core::mem::replace(&mut self.slots[i], Some((k, v)))); self.len += 1; return None; } i += 1; }
        panic!("harness map bound exceeded");
    }
    pub fn remove(&mut self, k: &K) -> Option<V> { match self.idx(k) { Some(i) => { self.len -= 1; self.slots[i].take().map(|(_, v)| v) } None => None } }
    pub fn values(&self) -> impl Iterator<Item = &V> { self.slots.iter().filter_map(|s| s.as_ref().map(|(_, v)| v)) }
    pub fn drain(&mut self) -> impl Iterator<Item = (K, V)> + '_ { self.len = 0; self.slots.iter_mut().filter_map(|s| s.take()) }
}
