//! Contract-level model of hashbrown::HashMap for bounded symbolic execution:
//! a fixed inline association list (no heap, no hashing), capacity bound MAPCAP.
//!
//! Occupancy and keys live in plain arrays (`used`, `keys`) and the values in
//! `MaybeUninit` cells, so that a lookup with concrete keys is decided by constant
//! propagation (an `Option<(K, V)>` slot would hide the occupancy in a niche of `V`, which the
//! symbolic execution reads through a union and does not fold).
#![no_std]
use core::hash::{BuildHasher, Hash};
use core::marker::PhantomData;
use core::mem::MaybeUninit;
pub const MAPCAP: usize = 3;
#[derive(Default, Clone, Copy, Debug)]
pub struct DefaultHashBuilder;
/// never used for anything (lookups compare keys); present so that bounds `S: BuildHasher` hold
pub struct NoHasher;
impl core::hash::Hasher for NoHasher {
    fn finish(&self) -> u64 {
        0
    }
    fn write(&mut self, _b: &[u8]) {}
}
impl BuildHasher for DefaultHashBuilder {
    type Hasher = NoHasher;
    fn build_hasher(&self) -> NoHasher {
        NoHasher
    }
}
pub struct HashMap<K, V, S = DefaultHashBuilder> {
    used: [bool; MAPCAP],
    keys: [MaybeUninit<K>; MAPCAP],
    vals: [MaybeUninit<V>; MAPCAP],
    len: usize,
    _s: PhantomData<S>,
}
impl<K, V, S> core::fmt::Debug for HashMap<K, V, S> {
    fn fmt(&self, f: &mut core::fmt::Formatter<'_>) -> core::fmt::Result {
        f.write_str("HashMap")
    }
}
impl<K, V, S> Drop for HashMap<K, V, S> {
    fn drop(&mut self) {
        let mut i = 0;
        while i < MAPCAP {
            if self.used[i] {
                self.used[i] = false;
                unsafe {
                    self.keys[i].assume_init_drop();
                    self.vals[i].assume_init_drop();
                }
            }
            i += 1;
        }
    }
}
impl<K: Eq + Hash, V, S> HashMap<K, V, S> {
    pub fn with_hasher(_s: S) -> Self {
        Self { used: [false; MAPCAP], keys: [const { MaybeUninit::uninit() }; MAPCAP], vals: [const { MaybeUninit::uninit() }; MAPCAP], len: 0, _s: PhantomData }
    }
    pub fn len(&self) -> usize {
        self.len
    }
    pub fn is_empty(&self) -> bool {
        self.len == 0
    }
    fn idx(&self, k: &K) -> Option<usize> {
        let mut i = 0;
        while i < MAPCAP {
            if self.used[i] && unsafe { self.keys[i].assume_init_ref() } == k {
                return Some(i);
            }
            i += 1;
        }
        None
    }
    pub fn contains_key(&self, k: &K) -> bool {
        self.idx(k).is_some()
    }
    pub fn get(&self, k: &K) -> Option<&V> {
        match self.idx(k) {
            Some(i) => Some(unsafe { self.vals[i].assume_init_ref() }),
            None => None,
        }
    }
    pub fn get_mut(&mut self, k: &K) -> Option<&mut V> {
        match self.idx(k) {
            Some(i) => Some(unsafe { self.vals[i].assume_init_mut() }),
            None => None,
        }
    }
    pub fn insert(&mut self, k: K, v: V) -> Option<V> {
        if let Some(i) = self.idx(&k) {
            let old = core::mem::replace(&mut self.vals[i], MaybeUninit::new(v));
            return Some(unsafe { old.assume_init() });
        }
        let mut i = 0;
        while i < MAPCAP {
            if !self.used[i] {
                self.used[i] = true;
                self.keys[i] = MaybeUninit::new(k);
                self.vals[i] = MaybeUninit::new(v);
                self.len += 1;
                return None;
            }
            i += 1;
        }
        panic!("BOUND: harness map bound (MAPCAP) exceeded in the hashbrown model");
    }
    pub fn remove(&mut self, k: &K) -> Option<V> {
        match self.idx(k) {
            Some(i) => {
                self.len -= 1;
                self.used[i] = false;
                unsafe {
                    self.keys[i].assume_init_drop();
                    Some(self.vals[i].assume_init_read())
                }
            }
            None => None,
        }
    }
    /// `entry(k)`: only `or_insert` / `or_insert_with` of the entry API are modelled.
    pub fn entry(&mut self, k: K) -> Entry<'_, K, V, S> {
        Entry { m: self, k }
    }
    /// Keep the entries for which `f` returns true (visited in slot order).
    pub fn retain<F: FnMut(&K, &mut V) -> bool>(&mut self, mut f: F) {
        let mut i = 0;
        while i < MAPCAP {
            if self.used[i] {
                let keep = unsafe { f(self.keys[i].assume_init_ref(), self.vals[i].assume_init_mut()) };
                if !keep {
                    self.used[i] = false;
                    self.len -= 1;
                    unsafe {
                        self.keys[i].assume_init_drop();
                        self.vals[i].assume_init_drop();
                    }
                }
            }
            i += 1;
        }
    }
    pub fn values(&self) -> Values<'_, K, V, S> {
        Values { m: self, i: 0 }
    }
    pub fn drain(&mut self) -> Drain<'_, K, V, S> {
        Drain { m: self, i: 0 }
    }
    pub fn clear(&mut self) {
        let mut d = self.drain();
        while let Some(kv) = d.next() {
            drop(kv);
        }
    }
}
impl<K: Eq + Hash, V> HashMap<K, V, DefaultHashBuilder> {
    pub fn new() -> Self {
        Self::with_hasher(DefaultHashBuilder)
    }
}
pub struct Entry<'a, K, V, S> {
    m: &'a mut HashMap<K, V, S>,
    k: K,
}
impl<'a, K: Eq + Hash, V, S> Entry<'a, K, V, S> {
    pub fn or_insert_with<F: FnOnce() -> V>(self, f: F) -> &'a mut V {
        let Entry { m, k } = self;
        let i = match m.idx(&k) {
            Some(i) => i,
            None => {
                let v = f();
                let mut j = 0;
                let mut found = MAPCAP;
                while j < MAPCAP {
                    if !m.used[j] && found == MAPCAP {
                        found = j;
                    }
                    j += 1;
                }
                if found == MAPCAP {
                    panic!("BOUND: harness map bound (MAPCAP) exceeded in the hashbrown model");
                }
                m.used[found] = true;
                m.keys[found] = MaybeUninit::new(k);
                m.vals[found] = MaybeUninit::new(v);
                m.len += 1;
                found
            }
        };
        unsafe { m.vals[i].assume_init_mut() }
    }
    pub fn or_insert(self, v: V) -> &'a mut V {
        self.or_insert_with(|| v)
    }
}
pub struct Values<'a, K, V, S> {
    m: &'a HashMap<K, V, S>,
    i: usize,
}
impl<'a, K, V, S> Iterator for Values<'a, K, V, S> {
    type Item = &'a V;
    fn next(&mut self) -> Option<&'a V> {
        while self.i < MAPCAP {
            let i = self.i;
            self.i += 1;
            if self.m.used[i] {
                return Some(unsafe { self.m.vals[i].assume_init_ref() });
            }
        }
        None
    }
}
pub struct Drain<'a, K, V, S> {
    m: &'a mut HashMap<K, V, S>,
    i: usize,
}
impl<K, V, S> Iterator for Drain<'_, K, V, S> {
    type Item = (K, V);
    fn next(&mut self) -> Option<(K, V)> {
        while self.i < MAPCAP {
            let i = self.i;
            self.i += 1;
            if self.m.used[i] {
                self.m.used[i] = false;
                self.m.len -= 1;
                return Some(unsafe { (self.m.keys[i].assume_init_read(), self.m.vals[i].assume_init_read()) });
            }
        }
        None
    }
}
