//! Contract-level model of the `bytes` crate for symbolic execution:
//! `Bytes` = immutable shared byte string = leaked `&'static [u8]` (no refcount, no vtable).
#![no_std]
extern crate alloc;
use alloc::{boxed::Box, vec::Vec, string::String};
use core::{cmp, fmt, hash, ops::Deref, borrow::Borrow};

#[derive(Clone, Copy)]
pub struct Bytes { d: &'static [u8] }
impl Bytes {
    pub const fn new() -> Self { Self { d: &[] } }
    pub const fn from_static(d: &'static [u8]) -> Self { Self { d } }
    pub fn copy_from_slice(d: &[u8]) -> Self { Self::from(d.to_vec()) }
    pub const fn len(&self) -> usize { self.d.len() }
    pub const fn is_empty(&self) -> bool { self.d.is_empty() }
    pub fn split_to(&mut self, at: usize) -> Self {
        assert!(at <= self.len(), "split_to out of bounds");
        let (l, r) = self.d.split_at(at); self.d = r; Self { d: l }
    }
    pub fn split_off(&mut self, at: usize) -> Self {
        assert!(at <= self.len(), "split_off out of bounds");
        let (l, r) = self.d.split_at(at); self.d = l; Self { d: r }
    }
    pub fn truncate(&mut self, len: usize) { if len < self.d.len() { self.d = &self.d[..len]; } }
    pub fn clear(&mut self) { self.d = &[]; }
    pub fn slice(&self, r: impl core::ops::RangeBounds<usize>) -> Self {
        use core::ops::Bound::*;
        let b = match r.start_bound() { Included(&n) => n, Excluded(&n) => n + 1, Unbounded => 0 };
        let e = match r.end_bound() { Included(&n) => n + 1, Excluded(&n) => n, Unbounded => self.len() };
        assert!(b <= e && e <= self.len(), "range out of bounds");
        Self { d: &self.d[b..e] }
    }
}
impl Default for Bytes { fn default() -> Self { Self::new() } }
// `Vec::leak` does not shrink (no realloc): the spare capacity is simply never observable.
impl From<Vec<u8>> for Bytes { fn from(v: Vec<u8>) -> Self { Self { d: v.leak() } } }
impl From<Box<[u8]>> for Bytes { fn from(v: Box<[u8]>) -> Self { Self { d: Box::leak(v) } } }
impl From<&'static [u8]> for Bytes { fn from(d: &'static [u8]) -> Self { Self { d } } }
impl From<&'static str> for Bytes { fn from(d: &'static str) -> Self { Self { d: d.as_bytes() } } }
impl From<String> for Bytes { fn from(s: String) -> Self { Self::from(s.into_bytes()) } }
impl From<Bytes> for Vec<u8> { fn from(b: Bytes) -> Self { b.d.to_vec() } }
impl Deref for Bytes { type Target = [u8]; fn deref(&self) -> &[u8] { self.d } }
impl AsRef<[u8]> for Bytes { fn as_ref(&self) -> &[u8] { self.d } }
impl Borrow<[u8]> for Bytes { fn borrow(&self) -> &[u8] { self.d } }
impl hash::Hash for Bytes { fn hash<H: hash::Hasher>(&self, s: &mut H) { self.d.hash(s) } }
impl fmt::Debug for Bytes { fn fmt(&self, f: &mut fmt::Formatter<'_>) -> fmt::Result { f.write_str("Bytes") } }
impl PartialEq for Bytes { fn eq(&self, o: &Self) -> bool { self.d == o.d } }
impl Eq for Bytes {}
impl PartialOrd for Bytes { fn partial_cmp(&self, o: &Self) -> Option<cmp::Ordering> { self.d.partial_cmp(o.d) } }
impl Ord for Bytes { fn cmp(&self, o: &Self) -> cmp::Ordering { self.d.cmp(o.d) } }
impl PartialEq<[u8]> for Bytes { fn eq(&self, o: &[u8]) -> bool { self.d == o } }
impl PartialOrd<[u8]> for Bytes { fn partial_cmp(&self, o: &[u8]) -> Option<cmp::Ordering> { self.d.partial_cmp(o) } }
impl PartialEq<Bytes> for [u8] { fn eq(&self, o: &Bytes) -> bool { self == o.d } }
impl PartialOrd<Bytes> for [u8] { fn partial_cmp(&self, o: &Bytes) -> Option<cmp::Ordering> { self.partial_cmp(o.d) } }
impl PartialEq<Bytes> for &[u8] { fn eq(&self, o: &Bytes) -> bool { *self == o.d } }
impl PartialOrd<Bytes> for &[u8] { fn partial_cmp(&self, o: &Bytes) -> Option<cmp::Ordering> { (*self).partial_cmp(o.d) } }
impl PartialEq<Vec<u8>> for Bytes { fn eq(&self, o: &Vec<u8>) -> bool { self.d == &o[..] } }
impl PartialEq<Bytes> for Vec<u8> { fn eq(&self, o: &Bytes) -> bool { &self[..] == o.d } }
impl PartialEq<str> for Bytes { fn eq(&self, o: &str) -> bool { self.d == o.as_bytes() } }
impl<'a, T: ?Sized> PartialEq<&'a T> for Bytes where Bytes: PartialEq<T> { fn eq(&self, o: &&'a T) -> bool { *self == **o } }
impl<const N: usize> PartialEq<[u8; N]> for Bytes { fn eq(&self, o: &[u8; N]) -> bool { self.d == &o[..] } }

pub trait Buf {
    fn remaining(&self) -> usize;
    fn chunk(&self) -> &[u8];
    fn advance(&mut self, cnt: usize);
    fn has_remaining(&self) -> bool { self.remaining() > 0 }
    fn copy_to_slice(&mut self, dst: &mut [u8]) {
        assert!(self.remaining() >= dst.len(), "buffer underflow");
        // contiguous fast path (one iteration of the documented loop): keeps the number of
        // loop iterations independent of a symbolic chunk length
        if self.chunk().len() >= dst.len() {
            let n = dst.len();
            let src = self.chunk();
            let mut i = 0;
            while i < n {
                dst[i] = src[i];
                i += 1;
            }
            self.advance(n);
            return;
        }
        let mut off = 0;
        while off < dst.len() {
            let src = self.chunk();
            let n = cmp::min(src.len(), dst.len() - off);
            dst[off..off + n].copy_from_slice(&src[..n]);
            off += n;
            self.advance(n);
        }
    }
    fn get_u8(&mut self) -> u8 { let mut b = [0; 1]; self.copy_to_slice(&mut b); b[0] }
    fn get_u16(&mut self) -> u16 { let mut b = [0; 2]; self.copy_to_slice(&mut b); u16::from_be_bytes(b) }
    fn get_u32(&mut self) -> u32 { let mut b = [0; 4]; self.copy_to_slice(&mut b); u32::from_be_bytes(b) }
    fn get_u64(&mut self) -> u64 { let mut b = [0; 8]; self.copy_to_slice(&mut b); u64::from_be_bytes(b) }
    fn get_u128(&mut self) -> u128 { let mut b = [0; 16]; self.copy_to_slice(&mut b); u128::from_be_bytes(b) }
}
impl Buf for Bytes {
    fn remaining(&self) -> usize { self.d.len() }
    fn chunk(&self) -> &[u8] { self.d }
    fn advance(&mut self, cnt: usize) { assert!(cnt <= self.d.len(), "cannot advance past `remaining`"); self.d = &self.d[cnt..]; }
}
impl Buf for &[u8] {
    fn remaining(&self) -> usize { self.len() }
    fn chunk(&self) -> &[u8] { self }
    fn advance(&mut self, cnt: usize) { assert!(cnt <= self.len(), "cannot advance past `remaining`"); *self = &self[cnt..]; }
}
pub trait BufMut {
    fn put_slice(&mut self, src: &[u8]);
    fn put_u8(&mut self, n: u8) { self.put_slice(&[n]) }
    fn put_u16(&mut self, n: u16) { self.put_slice(&n.to_be_bytes()) }
    fn put_u32(&mut self, n: u32) { self.put_slice(&n.to_be_bytes()) }
    fn put_u64(&mut self, n: u64) { self.put_slice(&n.to_be_bytes()) }
}
impl BufMut for Vec<u8> { fn put_slice(&mut self, src: &[u8]) { self.extend_from_slice(src) } }
