pub mod callsite { pub const INITIAL_MS: u64 = 200; pub const MULT: u32 = 2; }
