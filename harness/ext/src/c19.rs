//! C19 (decidable part) — the back-off generator as parameterised at the client's call site.
//!
//! `callsite::{INITIAL_MS, MULT}` are extracted by the driver from the CURRENT
//! `penguin/src/client/mod.rs` (`Backoff::new(Duration::from_millis(..), .., <mult>, ..)`);
//! the expected schedule is the property's: min(200 ms x 2^k, max_retry_interval), `None`
//! exactly after `max_retry_count` advances (never if it is 0), reset restores the start.
use core::time::Duration;
use penguin_mux::timing::Backoff;

include!("callsite.rs");

fn expected(k: u32, max: Duration) -> Duration {
    // 200 ms * 2^k, saturating well above any Duration the generator can reach in 16 steps
    let ms: u64 = 200u64 << k;
    let d = Duration::from_millis(ms);
    if d < max { d } else { max }
}

/// K consecutive failures, then a reset (successful connection), then one more failure.
fn schedule<const K: u32>() {
    let max_ms: u64 = kani::any();
    let max_count: u32 = kani::any();
    let max = Duration::from_millis(max_ms);
    let mut b = Backoff::new(Duration::from_millis(callsite::INITIAL_MS), max, callsite::MULT, max_count);
    let mut k = 0;
    while k < K {
        let got = b.advance();
        if max_count != 0 && k >= max_count {
            assert!(got.is_none(), "P:C19 back-off keeps retrying after max_retry_count consecutive failures");
        } else {
            match got {
                None => panic!("P:C19 back-off gives up before max_retry_count failures (or although it is 0)"),
                Some(d) => assert!(d == expected(k, max), "P:C19 k-th delay is not min(200 ms * 2^k, max_retry_interval)"),
            }
        }
        k += 1;
    }
    kani::cover!(max_count != 0 && K > max_count, "?give-up reachable");
    kani::cover!(max_count == 0 || K <= max_count, "?all delays produced");
    // a successful connection resets the generator
    b.reset();
    let got = b.advance();
    match got {
        None => panic!("P:C19 back-off gives up right after a reset"),
        Some(d) => assert!(d == expected(0, max), "P:C19 delay after a successful connection is not the shortest one"),
    }
    kani::cover!(true, "schedule evaluated");
}

/// Small generic tuples (initial, max, mult, max_count): same law with arbitrary parameters
/// in whole milliseconds.
fn generic<const K: u32>() {
    let init_ms: u16 = kani::any();
    let max_ms: u16 = kani::any();
    let mult: u8 = kani::any();
    let max_count: u8 = kani::any();
    kani::assume(mult >= 1 && mult <= 4);
    let max = Duration::from_millis(max_ms as u64);
    let mut b = Backoff::new(Duration::from_millis(init_ms as u64), max, mult as u32, max_count as u32);
    let mut cur: u64 = init_ms as u64;
    let mut k = 0;
    while k < K {
        let got = b.advance();
        let want = if cur < max_ms as u64 { cur } else { max_ms as u64 };
        if max_count != 0 && k >= max_count as u32 {
            assert!(got.is_none(), "P:C19 generic back-off keeps going after max_count");
        } else {
            assert!(got == Some(Duration::from_millis(want)), "P:C19 generic back-off: wrong k-th delay");
        }
        cur = want * mult as u64;
        k += 1;
    }
    kani::cover!(true, "schedule evaluated");
}

macro_rules! h {
    ($name:ident, $unwind:literal, $body:expr) => {
        #[kani::proof]
        #[kani::unwind($unwind)]
        fn $name() {
            $body
        }
    };
}
h!(c19_schedule_k1, 4, schedule::<1>());
h!(c19_schedule_k3, 6, schedule::<3>());
h!(c19_schedule_k6, 9, schedule::<6>());
h!(c19_schedule_k12, 15, schedule::<12>());
h!(c19_generic_k3, 6, generic::<3>());
h!(c19_generic_k6, 9, generic::<6>());
