//! C19 (decidable part) — the back-off generator as parameterised at the client's call site.
//!
//! `callsite::{INITIAL_MS, MULT}` are extracted by the driver from the CURRENT
//! `penguin/src/client/mod.rs` (`Backoff::new(Duration::from_millis(..), .., <mult>, ..)`);
//! the expected schedule is the property's: min(200 ms x 2^k, max_retry_interval), `None`
//! exactly after `max_retry_count` advances (never if it is 0), reset restores the start.
use core::time::Duration;
use penguin_mux::timing::Backoff;

include!("callsite.rs");

fn expected(k: u32, max: Duration) -> Duration {
    // min(200 ms * 2^k, max) in 128-bit arithmetic (k < 100 in every instance)
    let ms: u128 = (callsite::INITIAL_MS as u128) << (if k < 100 { k } else { 100 });
    if ms < max.as_millis() { Duration::from_millis(ms as u64) } else { max }
}

/// K consecutive failures, then a reset (successful connection), then one more failure.
fn schedule<const K: u32>() {
    let max_ms: u64 = kani::any();
    let max_count: u32 = kani::any();
    let max = Duration::from_millis(max_ms);
    let mut b = Backoff::new(Duration::from_millis(callsite::INITIAL_MS), max, callsite::MULT, max_count);
    let mut k = 0;
    while k < K {
        let got = b.advance();
        if max_count != 0 && k >= max_count {
            assert!(got.is_none(), "P:C19 back-off keeps retrying after max_retry_count consecutive failures");
        } else {
            match got {
                None => panic!("P:C19 back-off gives up before max_retry_count failures (or although it is 0)"),
                Some(d) => assert!(d == expected(k, max), "P:C19 k-th delay is not min(200 ms * 2^k, max_retry_interval)"),
            }
        }
        k += 1;
    }
    kani::cover!(max_count != 0 && K > max_count, "?give-up reachable");
    kani::cover!(max_count == 0 || K <= max_count, "?all delays produced");
    // a successful connection resets the generator
    b.reset();
    let got = b.advance();
    match got {
        None => panic!("P:C19 back-off gives up right after a reset"),
        Some(d) => assert!(d == expected(0, max), "P:C19 delay after a successful connection is not the shortest one"),
    }
    kani::cover!(true, "schedule evaluated");
}

/// Small generic tuples (initial, max, mult, max_count): same law with arbitrary parameters
/// in whole milliseconds.
fn generic<const K: u32>() {
    let init_ms: u16 = kani::any();
    let max_ms: u16 = kani::any();
    let mult: u8 = kani::any();
    let max_count: u8 = kani::any();
    kani::assume(mult >= 1 && mult <= 4);
    let max = Duration::from_millis(max_ms as u64);
    let mut b = Backoff::new(Duration::from_millis(init_ms as u64), max, mult as u32, max_count as u32);
    let mut cur: u64 = init_ms as u64;
    let mut k = 0;
    while k < K {
        let got = b.advance();
        let want = if cur < max_ms as u64 { cur } else { max_ms as u64 };
        if max_count != 0 && k >= max_count as u32 {
            assert!(got.is_none(), "P:C19 generic back-off keeps going after max_count");
        } else {
            assert!(got == Some(Duration::from_millis(want)), "P:C19 generic back-off: wrong k-th delay");
        }
        cur = want * mult as u64;
        k += 1;
    }
    kani::cover!(true, "schedule evaluated");
}

/// A long outage with CONCRETE parameters (so that the run is a plain execution, however many
/// failures): N consecutive failures, a successful connection, N more.  The command-line
/// defaults (300 s cap, no retry limit) and a capped, limited configuration.
fn long_outage<const N: u32>(max_ms: u64, max_count: u32) {
    let max = Duration::from_millis(max_ms);
    let mut b = Backoff::new(Duration::from_millis(callsite::INITIAL_MS), max, callsite::MULT, max_count);
    let mut round = 0;
    while round < 2 {
        let mut k = 0;
        while k < N {
            let got = b.advance();
            if max_count != 0 && k >= max_count {
                assert!(got.is_none(), "P:C19 back-off keeps retrying after max_retry_count consecutive failures");
            } else {
                match got {
                    None => panic!("P:C19 back-off gives up before max_retry_count failures (or although it is 0)"),
                    Some(d) => assert!(d == expected(k, max), "P:C19 k-th delay is not min(200 ms * 2^k, max_retry_interval)"),
                }
            }
            k += 1;
        }
        b.reset();
        round += 1;
    }
    kani::cover!(true, "schedule evaluated");
}

macro_rules! h {
    ($name:ident, $unwind:literal, $body:expr) => {
        #[kani::proof]
        #[kani::unwind($unwind)]
        fn $name() {
            $body
        }
    };
}
h!(c19_schedule_k1, 4, schedule::<1>());
h!(c19_schedule_k3, 6, schedule::<3>());
h!(c19_schedule_k6, 9, schedule::<6>());
h!(c19_schedule_k12, 15, schedule::<12>());
h!(c19_long_outage_defaults_n70, 72, long_outage::<70>(300_000, 0));
h!(c19_long_outage_cap1s_limit40_n45, 47, long_outage::<45>(1_000, 40));
h!(c19_long_outage_nocap_n66, 68, long_outage::<66>(u64::MAX / 4, 0));
h!(c19_generic_k3, 6, generic::<3>());
h!(c19_generic_k6, 9, generic::<6>());
