//! placeholder
