//! C09 — wire format: encode/decode are inverse, total, and exactly PROTOCOL.md.
//!
//! The reference layout below is written from PROTOCOL.md only (byte arrays, no code shared
//! with `frame.rs`).  Lengths (host, payload, total frame length) are concrete per harness,
//! all contents and field values are symbolic.
use bytes::Bytes;
use cow_bytes::CowBytes;
use penguin_mux::frame::{append_push_data, BindType, Frame, OpCode};

const VER: u8 = 7;

// ---- reference encoder: writes into a fixed buffer, returns the length --------------------
pub const RCAP: usize = 24;
#[derive(Clone, Copy)]
pub struct Ref {
    pub b: [u8; RCAP],
    pub n: usize,
}
impl Ref {
    fn new(op: u8, id: u32) -> Self {
        let mut r = Ref { b: [0; RCAP], n: 0 };
        r.u8((VER << 4) | op);
        r.u32(id);
        r
    }
    fn u8(&mut self, v: u8) {
        self.b[self.n] = v;
        self.n += 1;
    }
    fn u16(&mut self, v: u16) {
        self.u8((v >> 8) as u8);
        self.u8(v as u8);
    }
    fn u32(&mut self, v: u32) {
        self.u8((v >> 24) as u8);
        self.u8((v >> 16) as u8);
        self.u8((v >> 8) as u8);
        self.u8(v as u8);
    }
    fn bytes(&mut self, s: &[u8]) {
        let mut i = 0;
        while i < s.len() {
            self.u8(s[i]);
            i += 1;
        }
    }
}

fn same(v: &[u8], r: &Ref) -> bool {
    if v.len() != r.n {
        return false;
    }
    let mut i = 0;
    while i < r.n {
        if v[i] != r.b[i] {
            return false;
        }
        i += 1;
    }
    true
}

/// Encoding (both `Vec` and `Bytes`) equals the reference; decoding those bytes back (borrowed
/// and owned) yields a frame equal to the original and with the same id / opcode.
/// The decoders are fed the *reference* bytes (shown equal to the encoder's output just
/// before): a stack array keeps the version/opcode octet a constant for the symbolic
/// execution, so only the decoder arm of this opcode is explored.
fn check_codec(f: &Frame<'_>, r: &Ref, op: OpCode) {
    check_codec_eq(f, r, op, true)
}
/// `eq == false` (two-segment vectored payloads only): frame equality through `==` needs
/// `concat()` of a heap vector and does not fit the memory limit; equality of all fields is
/// then established through the encoding alone (same bytes, same id, same opcode).
fn check_codec_eq(f: &Frame<'_>, r: &Ref, op: OpCode, eq: bool) {
    let v = Vec::<u8>::from(f);
    assert!(same(&v, r), "P:C09 encoded bytes differ from the PROTOCOL.md layout");
    core::mem::forget(v);
    let b = Bytes::from(f);
    assert!(same(&b, r), "P:C09 Bytes encoding differs from the PROTOCOL.md layout");
    core::mem::forget(b);
    let d1 = Frame::try_from(&r.b[..r.n]);
    match &d1 {
        Ok(g) => {
            assert!(g.id == f.id && g.opcode() == op, "P:C09 borrowed decode changes id/opcode");
            if eq {
                assert!(g == f, "P:C09 borrowed decode of an encoded frame is not equal to the frame");
            }
        }
        Err(_) => panic!("P:C09 a frame built by the public constructors does not decode (borrowed)"),
    }
    core::mem::forget(d1);
    let d2 = Frame::try_from(Bytes::from_static(leak(r)));
    match &d2 {
        Ok(g) => {
            assert!(g.id == f.id && g.opcode() == op, "P:C09 owned decode changes id/opcode");
            if eq {
                assert!(g == f, "P:C09 owned decode of an encoded frame is not equal to the frame");
            }
        }
        Err(_) => panic!("P:C09 a frame built by the public constructors does not decode (owned)"),
    }
    kani::cover!(true, "codec round trip evaluated");
    core::mem::forget(d2);
}
/// `&'static` view of the reference bytes (for the owned decoder).
fn leak(r: &Ref) -> &'static [u8] {
    let bx: &'static mut [u8; RCAP] = Box::leak(Box::new(r.b));
    &bx[..r.n]
}

fn enc_connect<const H: usize>() {
    let host: [u8; H] = kani::any();
    let (id, rwnd, port): (u32, u32, u16) = (kani::any(), kani::any(), kani::any());
    let f = Frame::new_connect(&host, port, id, rwnd);
    let mut r = Ref::new(0, id);
    r.u32(rwnd);
    r.u16(port);
    r.bytes(&host);
    check_codec(&f, &r, OpCode::Connect);
    core::mem::forget(f);
}
fn enc_simple(which: u8) {
    let id: u32 = kani::any();
    match which {
        1 => {
            let n: u32 = kani::any();
            let f = Frame::new_acknowledge(id, n);
            let mut r = Ref::new(1, id);
            r.u32(n);
            check_codec(&f, &r, OpCode::Acknowledge);
        }
        2 => check_codec(&Frame::new_reset(id), &Ref::new(2, id), OpCode::Reset),
        _ => check_codec(&Frame::new_finish(id), &Ref::new(3, id), OpCode::Finish),
    }
}
fn enc_push<const P: usize>(owned: bool) {
    let data: [u8; P] = kani::any();
    let id: u32 = kani::any();
    let f = if owned { Frame::new_push_owned(id, Bytes::copy_from_slice(&data)) } else { Frame::new_push(id, &data) };
    let mut r = Ref::new(4, id);
    r.bytes(&data);
    check_codec(&f, &r, OpCode::Push);
    core::mem::forget(f);
}
fn enc_push_vectored<const A: usize, const B: usize>(parts: usize) {
    let a: [u8; A] = kani::any();
    let b: [u8; B] = kani::any();
    let id: u32 = kani::any();
    let mut v: Vec<CowBytes<'_>> = Vec::with_capacity(2);
    let mut r = Ref::new(4, id);
    if parts >= 1 {
        v.push(CowBytes::Temporary(&a));
        r.bytes(&a);
    }
    if parts >= 2 {
        v.push(if kani::any() { CowBytes::Static(Bytes::copy_from_slice(&b)) } else { CowBytes::Temporary(&b) });
        r.bytes(&b);
    }
    let f = Frame::new_push_vectored(id, v);
    check_codec_eq(&f, &r, OpCode::Push, parts < 2);
    core::mem::forget(f);
}
fn enc_bind<const H: usize>() {
    let host: [u8; H] = kani::any();
    let (id, port): (u32, u16) = (kani::any(), kani::any());
    let dgram: bool = kani::any();
    let bt = if dgram { BindType::Datagram } else { BindType::Stream };
    let f = Frame::new_bind(id, bt, &host, port);
    let mut r = Ref::new(5, id);
    r.u8(if dgram { 3 } else { 1 });
    r.u16(port);
    r.bytes(&host);
    check_codec(&f, &r, OpCode::Bind);
    core::mem::forget(f);
}
fn enc_datagram<const H: usize, const P: usize>(owned: bool) {
    let host: [u8; H] = kani::any();
    let data: [u8; P] = kani::any();
    let (id, port): (u32, u16) = (kani::any(), kani::any());
    let f = if owned {
        Frame::new_datagram_owned(id, Bytes::copy_from_slice(&host), port, Bytes::copy_from_slice(&data))
    } else {
        Frame::new_datagram(id, &host, port, &data)
    };
    let mut r = Ref::new(6, id);
    r.u8(H as u8);
    r.u16(port);
    r.bytes(&host);
    r.bytes(&data);
    check_codec(&f, &r, OpCode::Datagram);
    core::mem::forget(f);
}

// ---- reference decoder validity (PROTOCOL.md) --------------------------------------------
#[derive(PartialEq, Eq, Clone, Copy)]
enum Shape {
    Invalid,
    /// valid; the frame occupies the first `used` bytes (== n for variable-length opcodes)
    Valid { op: u8, used: usize },
}
fn reference_shape(b: &[u8]) -> Shape {
    let n = b.len();
    if n < 5 {
        return Shape::Invalid;
    }
    let ver = b[0] >> 4;
    let op = b[0] & 0x0f;
    if ver != VER && ver != 0 {
        return Shape::Invalid;
    }
    let rest = n - 5;
    match op {
        0 => if rest >= 6 { Shape::Valid { op, used: n } } else { Shape::Invalid },
        1 => if rest >= 4 { Shape::Valid { op, used: 9 } } else { Shape::Invalid },
        2 | 3 => Shape::Valid { op, used: 5 },
        4 => Shape::Valid { op, used: n },
        5 => {
            if rest < 3 {
                Shape::Invalid
            } else if b[5] != 1 && b[5] != 3 {
                Shape::Invalid
            } else {
                Shape::Valid { op, used: n }
            }
        }
        6 => {
            // host_len (1) + port (2) + host (host_len) + data (>= 0)
            if rest < 3 {
                Shape::Invalid
            } else if (b[5] as usize) > rest - 3 {
                Shape::Invalid
            } else {
                Shape::Valid { op, used: n }
            }
        }
        _ => Shape::Invalid,
    }
}

/// One byte string: decoding succeeds exactly if it is valid, never panics (production
/// build), and the decoded frame carries exactly the bytes of the input.
fn dec_one(b: &[u8]) {
    let shape = reference_shape(b);
    let r = Frame::try_from(b);
    match (&r, shape) {
        (Err(_), Shape::Invalid) => {
            kani::cover!(true, "?invalid string rejected");
        }
        (Err(_), Shape::Valid { .. }) => panic!("P:C09 a byte string valid under PROTOCOL.md is rejected by the decoder"),
        (Ok(_), Shape::Invalid) => panic!("P:C09 the decoder accepts a byte string that is invalid under PROTOCOL.md"),
        (Ok(f), Shape::Valid { op, used }) => {
            let id = ((b[1] as u32) << 24) | ((b[2] as u32) << 16) | ((b[3] as u32) << 8) | (b[4] as u32);
            assert!(f.id == id, "P:C09 decoded flow id is not bytes 1..5 big-endian");
            assert!((f.opcode() as u8) & 0x0f == op && (f.opcode() as u8) >> 4 == VER, "P:C09 decoded opcode differs from the low nibble");
            // re-encoding pins every field to the layout
            let v = Vec::<u8>::from(f);
            assert!(v.len() == used, "P:C09 re-encoded length differs from the bytes the frame occupies");
            assert!(v[0] == (VER << 4) | op, "P:C09 re-encoded version/opcode octet wrong");
            let mut i = 1;
            while i < used {
                assert!(v[i] == b[i], "P:C09 decoded fields differ from the layout (re-encoding differs from the input)");
                i += 1;
            }
            kani::cover!(true, "?valid string decoded and re-encoded");
            core::mem::forget(v);
        }
    }
    core::mem::forget(r);
}
/// Owned decoding agrees with borrowed decoding on validity, id and opcode.
fn dec_owned_agrees(b: &'static [u8]) {
    let r = Frame::try_from(b);
    let o = Frame::try_from(Bytes::from_static(b));
    match (&r, &o) {
        (Ok(x), Ok(y)) => assert!(x.id == y.id && x.opcode() == y.opcode(), "P:C09 owned and borrowed decoding disagree"),
        (Err(_), Err(_)) => {}
        _ => panic!("P:C09 owned and borrowed decoding disagree on validity"),
    }
    core::mem::forget(r);
    core::mem::forget(o);
}

/// All byte strings of length N whose first octet is `first` (a constant, so that only one
/// decoder arm is explored per call); everything after the first octet is symbolic.
fn dec_first<const N: usize>(first: u8) {
    let mut b: [u8; N] = kani::any();
    if N > 0 {
        b[0] = first;
    }
    dec_one(&b);
    let st: &'static mut [u8; N] = Box::leak(Box::new(b));
    dec_owned_agrees(&st[..]);
}
/// Class `op` (0..=6): first octet 0x7<op> and the lenient 0x0<op>.
/// (Enumerating the Bind type / Datagram host-length octet as constants as well was tried
/// and is slower than leaving it symbolic.)
fn dec_op<const N: usize>(op: u8) {
    dec_first::<N>((VER << 4) | op);
    dec_first::<N>(op);
    kani::cover!(true, "decoder evaluated");
}
/// Every other first octet (unknown opcode with a good version, or a bad version): 242 values,
/// each a constant for its run; the rest of the string is symbolic.
fn dec_bad_first<const N: usize>() {
    let b: [u8; N] = kani::any();
    let mut f: u16 = 0;
    while f < 256 {
        let ver = (f as u8) >> 4;
        let op = (f as u8) & 0x0f;
        if !((ver == VER || ver == 0) && op <= 6) {
            let mut c = b;
            c[0] = f as u8;
            let r = Frame::try_from(&c[..]);
            assert!(r.is_err(), "P:C09 the decoder accepts a byte string that is invalid under PROTOCOL.md");
            core::mem::forget(r);
        }
        f += 1;
    }
    kani::cover!(true, "decoder evaluated");
}
/// Strings shorter than the fixed header: everything symbolic.
fn dec_short<const N: usize>() {
    let b: [u8; N] = kani::any();
    dec_one(&b);
    kani::cover!(true, "decoder evaluated");
}

/// `append_push_data(encode(Push(p)), extra) == encode(Push(p ++ extra))`
fn append<const P: usize, const E: usize>() {
    let data: [u8; P] = kani::any();
    let extra: [u8; E] = kani::any();
    let id: u32 = kani::any();
    let mut v = Vec::<u8>::from(Frame::new_push(id, &data));
    append_push_data(&mut v, &extra);
    let mut r = Ref::new(4, id);
    r.bytes(&data);
    r.bytes(&extra);
    assert!(same(&v, &r), "P:C09 append_push_data result is not the encoding of the concatenated payload");
    core::mem::forget(v);
    // (the decoder is fed the reference bytes, just shown equal to `v`)
    let d = Frame::try_from(&r.b[..r.n]);
    match &d {
        Ok(g) => assert!(g.id == id && g.opcode() == OpCode::Push, "P:C09 appended Push frame decodes to another id/opcode"),
        Err(_) => panic!("P:C09 appended Push frame does not decode"),
    }
    kani::cover!(true, "append evaluated");
    core::mem::forget(d);
}

macro_rules! h {
    ($name:ident, $unwind:literal, $body:expr) => {
        #[kani::proof]
        #[kani::unwind($unwind)]
        fn $name() {
            $body
        }
    };
}

h!(c09_enc_connect_h0, 20, enc_connect::<0>());
h!(c09_enc_connect_h1, 20, enc_connect::<1>());
h!(c09_enc_connect_h3, 20, enc_connect::<3>());
h!(c09_enc_ack, 20, enc_simple(1));
h!(c09_enc_reset, 20, enc_simple(2));
h!(c09_enc_finish, 20, enc_simple(3));
h!(c09_enc_push_p0, 20, enc_push::<0>(false));
h!(c09_enc_push_p1, 20, enc_push::<1>(false));
h!(c09_enc_push_p4, 20, enc_push::<4>(false));
h!(c09_enc_push_owned_p0, 20, enc_push::<0>(true));
h!(c09_enc_push_owned_p3, 20, enc_push::<3>(true));
h!(c09_enc_pushv_none, 20, enc_push_vectored::<1, 1>(0));
h!(c09_enc_pushv_one, 20, enc_push_vectored::<2, 1>(1));
h!(c09_enc_pushv_1_2, 20, enc_push_vectored::<1, 2>(2));
h!(c09_enc_pushv_0_2, 20, enc_push_vectored::<0, 2>(2));
h!(c09_enc_pushv_2_0, 20, enc_push_vectored::<2, 0>(2));
h!(c09_enc_bind_h0, 20, enc_bind::<0>());
h!(c09_enc_bind_h2, 20, enc_bind::<2>());
h!(c09_enc_dgram_h0_p0, 20, enc_datagram::<0, 0>(false));
h!(c09_enc_dgram_h0_p1, 20, enc_datagram::<0, 1>(false));
h!(c09_enc_dgram_h2_p0, 20, enc_datagram::<2, 0>(false));
h!(c09_enc_dgram_h2_p3, 20, enc_datagram::<2, 3>(false));
h!(c09_enc_dgram_h1_p4, 20, enc_datagram::<1, 4>(false));
h!(c09_enc_dgram_h2_p5, 20, enc_datagram::<2, 5>(false));
h!(c09_enc_dgram_owned_h0_p0, 20, enc_datagram::<0, 0>(true));
h!(c09_enc_dgram_owned_h1_p2, 20, enc_datagram::<1, 2>(true));
h!(c09_enc_dgram_owned_h3_p4, 20, enc_datagram::<3, 4>(true));

h!(c09_dec_short_n0, 20, dec_short::<0>());
h!(c09_dec_short_n1, 20, dec_short::<1>());
h!(c09_dec_short_n4, 20, dec_short::<4>());
h!(c09_dec_op0_n5, 20, dec_op::<5>(0));
h!(c09_dec_op1_n5, 20, dec_op::<5>(1));
h!(c09_dec_op2_n5, 20, dec_op::<5>(2));
h!(c09_dec_op3_n5, 20, dec_op::<5>(3));
h!(c09_dec_op4_n5, 20, dec_op::<5>(4));
h!(c09_dec_op5_n5, 20, dec_op::<5>(5));
h!(c09_dec_op6_n5, 20, dec_op::<5>(6));
h!(c09_dec_badfirst_n5, 260, dec_bad_first::<5>());
h!(c09_dec_op0_n6, 20, dec_op::<6>(0));
h!(c09_dec_op1_n6, 20, dec_op::<6>(1));
h!(c09_dec_op2_n6, 20, dec_op::<6>(2));
h!(c09_dec_op3_n6, 20, dec_op::<6>(3));
h!(c09_dec_op4_n6, 20, dec_op::<6>(4));
h!(c09_dec_op5_n6, 20, dec_op::<6>(5));
h!(c09_dec_op6_n6, 20, dec_op::<6>(6));
h!(c09_dec_badfirst_n6, 260, dec_bad_first::<6>());
h!(c09_dec_op0_n7, 20, dec_op::<7>(0));
h!(c09_dec_op1_n7, 20, dec_op::<7>(1));
h!(c09_dec_op2_n7, 20, dec_op::<7>(2));
h!(c09_dec_op3_n7, 20, dec_op::<7>(3));
h!(c09_dec_op4_n7, 20, dec_op::<7>(4));
h!(c09_dec_op5_n7, 20, dec_op::<7>(5));
h!(c09_dec_op6_n7, 20, dec_op::<7>(6));
h!(c09_dec_badfirst_n7, 260, dec_bad_first::<7>());
h!(c09_dec_op0_n8, 20, dec_op::<8>(0));
h!(c09_dec_op1_n8, 20, dec_op::<8>(1));
h!(c09_dec_op2_n8, 20, dec_op::<8>(2));
h!(c09_dec_op3_n8, 20, dec_op::<8>(3));
h!(c09_dec_op4_n8, 20, dec_op::<8>(4));
h!(c09_dec_op5_n8, 20, dec_op::<8>(5));
h!(c09_dec_op6_n8, 20, dec_op::<8>(6));
h!(c09_dec_badfirst_n8, 260, dec_bad_first::<8>());
h!(c09_dec_op0_n9, 20, dec_op::<9>(0));
h!(c09_dec_op1_n9, 20, dec_op::<9>(1));
h!(c09_dec_op2_n9, 20, dec_op::<9>(2));
h!(c09_dec_op3_n9, 20, dec_op::<9>(3));
h!(c09_dec_op4_n9, 20, dec_op::<9>(4));
h!(c09_dec_op5_n9, 20, dec_op::<9>(5));
h!(c09_dec_op6_n9, 20, dec_op::<9>(6));
h!(c09_dec_badfirst_n9, 260, dec_bad_first::<9>());
h!(c09_dec_op0_n10, 20, dec_op::<10>(0));
h!(c09_dec_op1_n10, 20, dec_op::<10>(1));
h!(c09_dec_op2_n10, 20, dec_op::<10>(2));
h!(c09_dec_op3_n10, 20, dec_op::<10>(3));
h!(c09_dec_op4_n10, 20, dec_op::<10>(4));
h!(c09_dec_op5_n10, 20, dec_op::<10>(5));
h!(c09_dec_op6_n10, 20, dec_op::<10>(6));
h!(c09_dec_badfirst_n10, 260, dec_bad_first::<10>());
h!(c09_dec_op0_n11, 20, dec_op::<11>(0));
h!(c09_dec_op1_n11, 20, dec_op::<11>(1));
h!(c09_dec_op2_n11, 20, dec_op::<11>(2));
h!(c09_dec_op3_n11, 20, dec_op::<11>(3));
h!(c09_dec_op4_n11, 20, dec_op::<11>(4));
h!(c09_dec_op5_n11, 20, dec_op::<11>(5));
h!(c09_dec_op6_n11, 20, dec_op::<11>(6));
h!(c09_dec_badfirst_n11, 260, dec_bad_first::<11>());
h!(c09_dec_op0_n12, 20, dec_op::<12>(0));
h!(c09_dec_op1_n12, 20, dec_op::<12>(1));
h!(c09_dec_op2_n12, 20, dec_op::<12>(2));
h!(c09_dec_op3_n12, 20, dec_op::<12>(3));
h!(c09_dec_op4_n12, 20, dec_op::<12>(4));
h!(c09_dec_op5_n12, 20, dec_op::<12>(5));
h!(c09_dec_op6_n12, 20, dec_op::<12>(6));
h!(c09_dec_badfirst_n12, 260, dec_bad_first::<12>());
h!(c09_dec_op0_n13, 20, dec_op::<13>(0));
h!(c09_dec_op1_n13, 20, dec_op::<13>(1));
h!(c09_dec_op2_n13, 20, dec_op::<13>(2));
h!(c09_dec_op3_n13, 20, dec_op::<13>(3));
h!(c09_dec_op4_n13, 20, dec_op::<13>(4));
h!(c09_dec_op5_n13, 20, dec_op::<13>(5));
h!(c09_dec_op6_n13, 20, dec_op::<13>(6));
h!(c09_dec_badfirst_n13, 260, dec_bad_first::<13>());
h!(c09_dec_op0_n14, 20, dec_op::<14>(0));
h!(c09_dec_op1_n14, 20, dec_op::<14>(1));
h!(c09_dec_op2_n14, 20, dec_op::<14>(2));
h!(c09_dec_op3_n14, 20, dec_op::<14>(3));
h!(c09_dec_op4_n14, 20, dec_op::<14>(4));
h!(c09_dec_op5_n14, 20, dec_op::<14>(5));
h!(c09_dec_op6_n14, 20, dec_op::<14>(6));
h!(c09_dec_badfirst_n14, 260, dec_bad_first::<14>());
h!(c09_dec_op0_n16, 20, dec_op::<16>(0));
h!(c09_dec_op1_n16, 20, dec_op::<16>(1));
h!(c09_dec_op2_n16, 20, dec_op::<16>(2));
h!(c09_dec_op3_n16, 20, dec_op::<16>(3));
h!(c09_dec_op4_n16, 20, dec_op::<16>(4));
h!(c09_dec_op5_n16, 20, dec_op::<16>(5));
h!(c09_dec_op6_n16, 20, dec_op::<16>(6));
h!(c09_dec_badfirst_n16, 260, dec_bad_first::<16>());

h!(c09_append_p0_e2, 20, append::<0, 2>());
h!(c09_append_p2_e2, 20, append::<2, 2>());
h!(c09_append_p2_e0, 20, append::<2, 0>());
