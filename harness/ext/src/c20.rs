//! C20 — CowBytes / LongChain behave exactly like a plain byte sequence.
//!
//! One step from an arbitrary valid chain: the pre-state is a chain of `nch <= 3` chunks,
//! chunk lengths 1..=3, each chunk Temporary or Static (all symbolic), with symbolic
//! contents, next to a flat byte-array model.  One operation with a symbolic argument that
//! ranges over [0, total + 2] is applied to both; afterwards the chain must agree with the
//! model in every observable way.
use bytes::{Buf, Bytes};
use cow_bytes::{CowBytes, LongChain};

pub const MAXC: usize = 3;
pub const MAXL: usize = 3;
pub const CAP: usize = 12;
/// Backing store of a pre-state chain.  NOTE: deliberately a *flat* array: slicing the inner
/// array of a nested `[[u8; N]; M]` yields spurious counterexamples in Kani 0.68/CBMC 6.11.
pub const FLAT: usize = MAXC * MAXL;

#[derive(Clone, Copy)]
pub struct Model {
    pub b: [u8; CAP],
    pub n: usize,
}

impl Model {
    pub fn new() -> Self {
        Self { b: [0; CAP], n: 0 }
    }
    pub fn push_slice(&mut self, s: &[u8]) {
        let mut i = 0;
        while i < s.len() {
            self.b[self.n] = s[i];
            self.n += 1;
            i += 1;
        }
    }
    /// Insert `s` so that its first byte lands at byte offset `pos`.
    pub fn insert_at(&mut self, pos: usize, s: &[u8]) {
        let l = s.len();
        let mut i = self.n;
        while i > pos {
            self.b[i - 1 + l] = self.b[i - 1];
            i -= 1;
        }
        let mut j = 0;
        while j < l {
            self.b[pos + j] = s[j];
            j += 1;
        }
        self.n += l;
    }
    pub fn remove_range(&mut self, pos: usize, l: usize) {
        let mut i = pos;
        while i + l < self.n {
            self.b[i] = self.b[i + l];
            i += 1;
        }
        self.n -= l;
    }
    /// Split at `at`: self keeps [0, at), returns [at, n).
    pub fn split_off(&mut self, at: usize) -> Self {
        let mut o = Self::new();
        let mut i = at;
        while i < self.n {
            o.b[o.n] = self.b[i];
            o.n += 1;
            i += 1;
        }
        self.n = at;
        o
    }
}

/// Everything observable about a chain must agree with the model.
pub fn check(c: &LongChain<'_>, m: &Model) {
    let chunks = c.as_ref();
    let mut k = 0usize;
    let mut i = 0;
    while i < chunks.len() {
        let s: &[u8] = chunks[i].as_ref();
        assert!(!s.is_empty(), "P:C20 an empty chunk is exposed while bytes remain");
        let mut j = 0;
        while j < s.len() {
            assert!(k < m.n, "P:C20 chain holds more bytes than the model");
            assert!(s[j] == m.b[k], "P:C20 chain contents differ from the model");
            k += 1;
            j += 1;
        }
        i += 1;
    }
    assert!(k == m.n, "P:C20 concatenation of chunks is shorter than the model");
    assert!(c.remaining() == m.n, "P:C20 remaining() disagrees with the contents");
    assert!(c.len() == m.n, "P:C20 len() disagrees with the contents");
    assert!(c.is_empty() == (m.n == 0), "P:C20 is_empty() disagrees with the contents");
    let ch = c.chunk();
    assert!(ch.is_empty() == (m.n == 0), "P:C20 chunk() is empty while bytes remain (Buf contract)");
    if m.n > 0 {
        assert!(ch.len() == chunks[0].len() && ch[0] == m.b[0], "P:C20 chunk() is not the first chunk");
    }
}

/// A chunk of the requested length (0 allowed); `stat` selects the variant.
fn mk_cow<'a>(src: &'a [u8], off: usize, len: usize, stat: bool) -> CowBytes<'a> {
    let s = &src[off..off + len];
    if stat {
        CowBytes::Static(Bytes::copy_from_slice(s))
    } else {
        CowBytes::Temporary(s)
    }
}
fn any_cow<'a>(src: &'a [u8], off: usize, len: usize) -> CowBytes<'a> {
    mk_cow(src, off, len, kani::any())
}

/// Everything symbolic about a pre-state: backing bytes and the variant of every chunk.
#[derive(Clone, Copy)]
struct Pre {
    bytes: [u8; FLAT],
    extra: [u8; MAXL],
    kinds: [bool; MAXC],
    extra_kind: bool,
}
fn any_pre() -> Pre {
    Pre { bytes: kani::any(), extra: kani::any(), kinds: kani::any(), extra_kind: kani::any() }
}

/// Valid chain of the given *concrete* shape (chunk lengths), symbolic contents and
/// variants, plus its model.  Built with the real `push`.
fn build<'a, const N: usize>(p: &'a Pre, lens: [usize; N]) -> (LongChain<'a>, Model) {
    let mut c = LongChain::new();
    let mut m = Model::new();
    let mut i = 0;
    while i < N {
        let cow = mk_cow(&p.bytes, i * MAXL, lens[i], p.kinds[i]);
        m.push_slice(cow.as_ref());
        c.push(cow);
        i += 1;
    }
    (c, m)
}

fn offset_of<const N: usize>(lens: [usize; N], idx: usize) -> usize {
    let mut o = 0;
    let mut i = 0;
    while i < N && i < idx {
        o += lens[i];
        i += 1;
    }
    o
}
fn total_of<const N: usize>(lens: [usize; N]) -> usize {
    offset_of(lens, N)
}

/// Symbolic argument: the solver picks `a` in [0, limit] (in range) or in (limit, limit + 2]
/// (out of range) and the step runs once with that symbolic value.
/// (Dispatching per concrete value was tried and is 5-10x more expensive: every branch
/// re-executes the heap operations under a guard.)
/// `oor == false`: nothing at all may fail.  `oor == true`: a panic of the code under test
/// is an allowed outcome (classified by the driver), but if the call returns, the value
/// must be unchanged and consistent.
fn for_arg(limit: usize, oor: bool, mut step: impl FnMut(usize)) {
    let a: usize = kani::any();
    if oor {
        kani::assume(a > limit && a <= limit + 2);
    } else {
        kani::assume(a <= limit);
    }
    kani::cover!(true, "pre-state chosen, operation about to run");
    step(a);
}
/// Witness that the operation returned (required for in-range harnesses; for out-of-range
/// harnesses every path may legitimately panic, so the driver treats it as optional there).
fn done() {
    kani::cover!(true, "operation returned");
}

/// Symbolic value in [lo, hi].
fn for_range(lo: usize, hi: usize, mut step: impl FnMut(usize)) {
    let a: usize = kani::any();
    kani::assume(a >= lo && a <= hi);
    kani::cover!(true, "pre-state chosen, operation about to run");
    step(a);
}

fn op_truncate<const N: usize>(lens: [usize; N], oor: bool) {
    let p = any_pre();
    for_arg(total_of(lens), oor, |n| {
        let (mut c, mut m) = build(&p, lens);
        c.truncate(n);
        if !oor {
            m.n = n;
        }
        check(&c, &m);
        done();
        core::mem::forget(c);
    });
}

fn op_advance<const N: usize>(lens: [usize; N], oor: bool) {
    let p = any_pre();
    for_arg(total_of(lens), oor, |n| {
        let (mut c, mut m) = build(&p, lens);
        c.advance(n);
        if !oor {
            m.remove_range(0, n);
        }
        check(&c, &m);
        done();
        core::mem::forget(c);
    });
}

fn op_split_off<const N: usize>(lens: [usize; N], oor: bool) {
    let p = any_pre();
    for_arg(total_of(lens), oor, |at| {
        let (mut c, mut m) = build(&p, lens);
        let o = c.split_off(at);
        let mo = if oor { Model::new() } else { m.split_off(at) };
        check(&c, &m);
        check(&o, &mo);
        done();
        core::mem::forget(c);
        core::mem::forget(o);
    });
}

/// Same contracts at ONE concrete position (strictly inside a chunk that has chunks behind
/// it): with a concrete position the whole run is concrete except the bytes, so these
/// instances stay cheap whatever shape the implementation's Vec surgery takes.
fn op_split_off_at<const N: usize>(lens: [usize; N], at: usize) {
    let p = any_pre();
    kani::cover!(true, "pre-state chosen, operation about to run");
    let (mut c, mut m) = build(&p, lens);
    let o = c.split_off(at);
    let mo = m.split_off(at);
    check(&c, &m);
    check(&o, &mo);
    done();
    core::mem::forget(c);
    core::mem::forget(o);
}
fn op_split_to_at<const N: usize>(lens: [usize; N], at: usize) {
    let p = any_pre();
    kani::cover!(true, "pre-state chosen, operation about to run");
    let (mut c, mut m) = build(&p, lens);
    let o = c.split_to(at);
    let rest = m.split_off(at);
    check(&o, &m);
    check(&c, &rest);
    done();
    core::mem::forget(c);
    core::mem::forget(o);
}

fn op_split_to<const N: usize>(lens: [usize; N], oor: bool) {
    let p = any_pre();
    for_arg(total_of(lens), oor, |at| {
        let (mut c, mut m) = build(&p, lens);
        let o = c.split_to(at);
        if oor {
            check(&c, &m);
            check(&o, &Model::new());
        } else {
            let rest = m.split_off(at);
            check(&o, &m);
            check(&c, &rest);
        }
        done();
        core::mem::forget(c);
        core::mem::forget(o);
    });
}

fn op_push<const N: usize>(lens: [usize; N], seg_len: usize) {
    let p = any_pre();
    let (mut c, mut m) = build(&p, lens);
    let cow = mk_cow(&p.extra, 0, seg_len, p.extra_kind);
    m.push_slice(cow.as_ref());
    kani::cover!(true, "pre-state chosen, operation about to run");
    c.push(cow);
    // seg_len == 0: the model is unchanged; an empty chunk must not become visible
    check(&c, &m);
    done();
    core::mem::forget(c);
}

fn op_insert<const N: usize>(lens: [usize; N], seg_len: usize, oor: bool) {
    let p = any_pre();
    for_arg(N, oor, |idx| {
        let (mut c, mut m) = build(&p, lens);
        let cow = mk_cow(&p.extra, 0, seg_len, p.extra_kind);
        if !oor {
            m.insert_at(offset_of(lens, idx), cow.as_ref());
        }
        c.insert(idx, cow);
        check(&c, &m);
        done();
        core::mem::forget(c);
    });
}

fn op_pop<const N: usize>(lens: [usize; N]) {
    let p = any_pre();
    let (mut c, mut m) = build(&p, lens);
    kani::cover!(true, "pre-state chosen, operation about to run");
    let r = c.pop();
    if N == 0 {
        assert!(r.is_none(), "P:C20 pop on an empty chain returned a chunk");
    } else {
        let last = lens[N - 1];
        let start = m.n - last;
        match &r {
            None => panic!("P:C20 pop on a non-empty chain returned None"),
            Some(x) => {
                let s: &[u8] = x.as_ref();
                assert!(s.len() == last, "P:C20 popped chunk has the wrong length");
                let mut j = 0;
                while j < last {
                    assert!(s[j] == m.b[start + j], "P:C20 popped chunk has the wrong contents");
                    j += 1;
                }
            }
        }
        m.n = start;
    }
    check(&c, &m);
    done();
    core::mem::forget(c);
    core::mem::forget(r);
}

fn op_remove<const N: usize>(lens: [usize; N], oor: bool) {
    let p = any_pre();
    // in range: idx in [0, N-1] (N >= 1); out of range: idx in [N, N+1]
    let (lo, hi) = if oor { (N, N + 1) } else { (0, N - 1) };
    for_range(lo, hi, |idx| {
        let (mut c, mut m) = build(&p, lens);
        let r = c.remove(idx);
        if !oor {
            let off = offset_of(lens, idx);
            let l = lens[idx];
            let s: &[u8] = r.as_ref();
            assert!(s.len() == l, "P:C20 removed chunk has the wrong length");
            let mut j = 0;
            while j < l {
                assert!(s[j] == m.b[off + j], "P:C20 removed chunk has the wrong contents");
                j += 1;
            }
            m.remove_range(off, l);
        }
        check(&c, &m);
        done();
        core::mem::forget(c);
        core::mem::forget(r);
    });
}

fn op_clear<const N: usize>(lens: [usize; N]) {
    let p = any_pre();
    let (mut c, mut m) = build(&p, lens);
    kani::cover!(true, "pre-state chosen, operation about to run");
    c.clear();
    m.n = 0;
    check(&c, &m);
    done();
    core::mem::forget(c);
}

/// Three operations in a row (thorough tier): truncate, split_off, advance — all in range.
fn op_three_steps<const N: usize>(lens: [usize; N]) {
    let p = any_pre();
    let total = total_of(lens);
    for_arg(total, false, |n| {
        for_arg(n, false, |at| {
            for_arg(n - at, false, |k| {
                let (mut c, mut m) = build(&p, lens);
                c.truncate(n);
                m.n = n;
                let mut o = c.split_off(at);
                let mut mo = m.split_off(at);
                check(&c, &m);
                o.advance(k);
                mo.remove_range(0, k);
                check(&o, &mo);
                done();
                core::mem::forget(c);
                core::mem::forget(o);
            });
        });
    });
}

macro_rules! h {
    ($name:ident, $unwind:literal, $body:expr) => {
        #[kani::proof]
        #[kani::unwind($unwind)]
        fn $name() {
            $body
        }
    };
}

// ---- shapes: [] [2] [1,2] [3,1] [2,1,3] [1,1,1] [3,3,3] ---------------------------------
// quick tier: shapes [], [2], [1,2], [2,1,3]; thorough adds the others.
h!(c20_truncate_in_s0, 14, op_truncate([], false));
h!(c20_truncate_in_s2, 14, op_truncate([2], false));
h!(c20_truncate_in_s12, 14, op_truncate([1, 2], false));
h!(c20_truncate_in_s213, 14, op_truncate([2, 1, 3], false));
h!(c20_truncate_in_s31, 14, op_truncate([3, 1], false));
h!(c20_truncate_in_s111, 14, op_truncate([1, 1, 1], false));
h!(c20_truncate_in_s333, 14, op_truncate([3, 3, 3], false));
h!(c20_truncate_oor_s0, 14, op_truncate([], true));
h!(c20_truncate_oor_s2, 14, op_truncate([2], true));
h!(c20_truncate_oor_s12, 14, op_truncate([1, 2], true));
h!(c20_truncate_oor_s213, 14, op_truncate([2, 1, 3], true));

h!(c20_advance_in_s0, 14, op_advance([], false));
h!(c20_advance_in_s2, 14, op_advance([2], false));
h!(c20_advance_in_s12, 14, op_advance([1, 2], false));
h!(c20_advance_in_s213, 14, op_advance([2, 1, 3], false));
h!(c20_advance_in_s111, 14, op_advance([1, 1, 1], false));
h!(c20_advance_in_s333, 14, op_advance([3, 3, 3], false));
h!(c20_advance_oor_s0, 14, op_advance([], true));
h!(c20_advance_oor_s12, 14, op_advance([1, 2], true));
h!(c20_advance_oor_s213, 14, op_advance([2, 1, 3], true));

h!(c20_split_off_in_s0, 14, op_split_off([], false));
h!(c20_split_off_in_s2, 14, op_split_off([2], false));
h!(c20_split_off_in_s12, 14, op_split_off([1, 2], false));
h!(c20_split_off_in_s213, 14, op_split_off([2, 1, 3], false));
h!(c20_split_off_in_s31, 14, op_split_off([3, 1], false));
h!(c20_split_off_in_s333, 14, op_split_off([3, 3, 3], false));
h!(c20_split_off_oor_s0, 14, op_split_off([], true));
h!(c20_split_off_oor_s12, 14, op_split_off([1, 2], true));
h!(c20_split_off_oor_s213, 14, op_split_off([2, 1, 3], true));

h!(c20_split_off_at1_s31, 14, op_split_off_at([3, 1], 1));
h!(c20_split_off_at2_s31, 14, op_split_off_at([3, 1], 2));
h!(c20_split_off_at1_s213, 14, op_split_off_at([2, 1, 3], 1));
h!(c20_split_off_at4_s213, 14, op_split_off_at([2, 1, 3], 4));
h!(c20_split_to_at1_s31, 14, op_split_to_at([3, 1], 1));
h!(c20_split_to_at2_s31, 14, op_split_to_at([3, 1], 2));
h!(c20_split_to_at1_s213, 14, op_split_to_at([2, 1, 3], 1));
h!(c20_split_to_in_s0, 14, op_split_to([], false));
h!(c20_split_to_in_s2, 14, op_split_to([2], false));
h!(c20_split_to_in_s12, 14, op_split_to([1, 2], false));
h!(c20_split_to_in_s213, 14, op_split_to([2, 1, 3], false));
h!(c20_split_to_in_s333, 14, op_split_to([3, 3, 3], false));
h!(c20_split_to_oor_s0, 14, op_split_to([], true));
h!(c20_split_to_oor_s12, 14, op_split_to([1, 2], true));
h!(c20_split_to_oor_s213, 14, op_split_to([2, 1, 3], true));

h!(c20_push_seg2_s0, 14, op_push([], 2));
h!(c20_push_seg1_s12, 14, op_push([1, 2], 1));
h!(c20_push_seg3_s21, 14, op_push([2, 1], 3));
h!(c20_push_empty_s0, 14, op_push([], 0));
h!(c20_push_empty_s12, 14, op_push([1, 2], 0));

h!(c20_insert_in_seg2_s0, 14, op_insert([], 2, false));
h!(c20_insert_in_seg1_s12, 14, op_insert([1, 2], 1, false));
h!(c20_insert_in_seg2_s21, 14, op_insert([2, 1], 2, false));
h!(c20_insert_empty_s12, 14, op_insert([1, 2], 0, false));
h!(c20_insert_empty_s0, 14, op_insert([], 0, false));
h!(c20_insert_oor_seg1_s12, 14, op_insert([1, 2], 1, true));

h!(c20_pop_s0, 14, op_pop([]));
h!(c20_pop_s2, 14, op_pop([2]));
h!(c20_pop_s213, 14, op_pop([2, 1, 3]));

h!(c20_remove_in_s2, 14, op_remove([2], false));
h!(c20_remove_in_s213, 14, op_remove([2, 1, 3], false));
h!(c20_remove_oor_s0, 14, op_remove([], true));
h!(c20_remove_oor_s12, 14, op_remove([1, 2], true));

h!(c20_clear_s0, 14, op_clear([]));
h!(c20_clear_s213, 14, op_clear([2, 1, 3]));

h!(c20_three_steps_s12, 14, op_three_steps([1, 2]));
h!(c20_three_steps_s213, 14, op_three_steps([2, 1, 3]));

// ---- CowBytes itself --------------------------------------------------------------------
fn cow_model(src: &[u8; MAXL], len: usize) -> Model {
    let mut m = Model::new();
    m.push_slice(&src[..len]);
    m
}
fn cow_check(c: &CowBytes<'_>, m: &Model) {
    let s: &[u8] = c.as_ref();
    assert!(s.len() == m.n, "P:C20 CowBytes as_ref length differs from the model");
    assert!(c.len() == m.n, "P:C20 CowBytes len() differs from the model");
    assert!(c.is_empty() == (m.n == 0), "P:C20 CowBytes is_empty() wrong");
    assert!(c.remaining() == m.n, "P:C20 CowBytes remaining() differs from the model");
    assert!(c.chunk().len() == m.n, "P:C20 CowBytes chunk() differs from the model");
    let mut j = 0;
    while j < s.len() {
        assert!(s[j] == m.b[j], "P:C20 CowBytes contents differ from the model");
        j += 1;
    }
}
fn cow_op(len: usize, op: u8, oor: bool) {
    let src: [u8; MAXL] = kani::any();
    let stat: bool = kani::any();
    for_arg(len, oor, |a| cow_step(&src, stat, len, op, oor, a));
}
fn cow_step(src: &[u8; MAXL], stat: bool, len: usize, op: u8, oor: bool, a: usize) {
    let mut c = mk_cow(src, 0, len, stat);
    let mut m = cow_model(src, len);
    match op {
        0 => {
            let l = c.split_to(a);
            if oor {
                cow_check(&c, &m);
            } else {
                let rest = m.split_off(a);
                cow_check(&l, &m);
                cow_check(&c, &rest);
            }
            core::mem::forget(l);
        }
        1 => {
            let r = c.split_off(a);
            if oor {
                cow_check(&c, &m);
            } else {
                let rest = m.split_off(a);
                cow_check(&c, &m);
                cow_check(&r, &rest);
            }
            core::mem::forget(r);
        }
        2 => {
            c.truncate(a);
            if !oor {
                m.n = a;
            }
            cow_check(&c, &m);
        }
        _ => {
            c.advance(a);
            if !oor {
                m.remove_range(0, a);
            }
            cow_check(&c, &m);
        }
    }
    done();
    core::mem::forget(c);
}
h!(c20_cow_split_to_in, 8, cow_op(3, 0, false));
h!(c20_cow_split_off_in, 8, cow_op(3, 1, false));
h!(c20_cow_truncate_in, 8, cow_op(3, 2, false));
h!(c20_cow_advance_in, 8, cow_op(3, 3, false));
h!(c20_cow_split_to_oor, 8, cow_op(2, 0, true));
h!(c20_cow_split_off_oor, 8, cow_op(2, 1, true));
h!(c20_cow_truncate_oor, 8, cow_op(2, 2, true));
h!(c20_cow_advance_oor, 8, cow_op(2, 3, true));

// ---- borrowed and owned variants are indistinguishable ---------------------------------
struct FoldHasher(u64);
impl core::hash::Hasher for FoldHasher {
    fn finish(&self) -> u64 {
        self.0
    }
    fn write(&mut self, bytes: &[u8]) {
        let mut i = 0;
        while i < bytes.len() {
            self.0 = self.0.rotate_left(5) ^ (bytes[i] as u64);
            i += 1;
        }
    }
}
fn hash_of(c: &CowBytes<'_>) -> u64 {
    use core::hash::{Hash, Hasher};
    let mut h = FoldHasher(0);
    c.hash(&mut h);
    h.finish()
}
fn variants(len: usize, olen: usize) {
    use core::borrow::Borrow;
    let src: [u8; MAXL] = kani::any();
    let other: [u8; MAXL] = kani::any();
    let t = CowBytes::Temporary(&src[..len]);
    let s = CowBytes::Static(Bytes::copy_from_slice(&src[..len]));
    let ot = CowBytes::Temporary(&other[..olen]);
    let os = CowBytes::Static(Bytes::copy_from_slice(&other[..olen]));
    assert!(t.len() == s.len() && t.is_empty() == s.is_empty(), "P:C20 variants differ in len/is_empty");
    assert!(t.remaining() == s.remaining(), "P:C20 variants differ in remaining()");
    assert!(t.chunk() == s.chunk(), "P:C20 variants differ in chunk()");
    assert!(t.as_ref() == s.as_ref(), "P:C20 variants differ in as_ref()");
    assert!(&*t == &*s, "P:C20 variants differ in deref");
    let bt: &[u8] = t.borrow();
    let bs: &[u8] = s.borrow();
    assert!(bt == bs, "P:C20 variants differ in borrow()");
    assert!(t == s && s == t, "P:C20 equal contents compare unequal across variants");
    assert!((t == ot) == (s == os) && (t == os) == (s == ot), "P:C20 eq depends on the variant");
    assert!(t.partial_cmp(&ot) == s.partial_cmp(&os), "P:C20 partial_cmp depends on the variant");
    assert!(t.partial_cmp(&os) == s.partial_cmp(&ot), "P:C20 partial_cmp depends on the variant (mixed)");
    assert!((t == other[..olen]) == (s == other[..olen]), "P:C20 eq with [u8] depends on the variant");
    assert!(hash_of(&t) == hash_of(&s), "P:C20 hash depends on the variant");
    assert!((t == ot) == (t.as_ref() == ot.as_ref()), "P:C20 eq is not bytewise equality");
    kani::cover!(t == ot, "?equal pair reachable");
    kani::cover!(true, "comparisons evaluated");
    kani::cover!(t != ot, "?unequal pair reachable");
    let st = t.clone().into_static();
    let ss = s.clone().into_static();
    assert!(st == ss && &st[..] == &src[..len], "P:C20 into_static changes the contents");
    core::mem::forget((t, s, ot, os, st, ss));
}
/// Views of ONE storage (clones of a `Static` value, one of them shortened from the back or the
/// front) are values like any other: equality, ordering and hash are those of their bytes, and
/// agree with the borrowed variant holding the same bytes (seed C20d: a "same storage" fast path
/// in `eq` compared the start address only).
fn shared_storage(len: usize) {
    let src: [u8; MAXL] = kani::any();
    let base = Bytes::copy_from_slice(&src[..len]);
    let a = CowBytes::Static(base.clone());
    let mut b = CowBytes::Static(base.clone());
    let mut c = CowBytes::Static(base.clone());
    let n: usize = kani::any();
    kani::assume(n <= len);
    b.truncate(n);
    let m: usize = kani::any();
    kani::assume(m <= len);
    c.advance(m);
    let tb = CowBytes::Temporary(&src[..n]);
    let tc = CowBytes::Temporary(&src[m..len]);
    assert!(b.as_ref() == tb.as_ref() && c.as_ref() == tc.as_ref(), "P:C20 truncate / advance of a shared view changed the wrong bytes");
    assert!((a == b) == (a.as_ref() == b.as_ref()) && (b == a) == (a.as_ref() == b.as_ref()), "P:C20 eq of two views of one storage is not bytewise equality");
    assert!((a == c) == (a.as_ref() == c.as_ref()) && (b == c) == (b.as_ref() == c.as_ref()), "P:C20 eq of two views of one storage is not bytewise equality");
    assert!((a == b) == (a == tb) && (a == c) == (a == tc), "P:C20 eq depends on the variant (shared storage)");
    assert!(a.partial_cmp(&b) == a.as_ref().partial_cmp(b.as_ref()), "P:C20 ordering of two views of one storage is not that of their bytes");
    assert!(!(a == b) || hash_of(&a) == hash_of(&b), "P:C20 equal values with different hashes");
    kani::cover!(n < len && len > 0, "?a strictly shorter view of the same storage");
    kani::cover!(true, "shared-storage comparisons evaluated");
    core::mem::forget((a, b, c, tb, tc));
}
h!(c20_shared_storage_l3, 12, shared_storage(3));
h!(c20_shared_storage_l1, 12, shared_storage(1));
h!(c20_variants_l0_l0, 12, variants(0, 0));
h!(c20_variants_l2_l2, 12, variants(2, 2));
h!(c20_variants_l3_l2, 12, variants(3, 2));
h!(c20_variants_l1_l3, 12, variants(1, 3));
