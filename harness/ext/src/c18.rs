//! C18 — SOCKS4/4a/5 messages are parsed and produced exactly per the RFCs.
//!
//! Reference grammar written from RFC 1928 and the SOCKS4/4a memo; message lengths and
//! the address-type octet are concrete per harness, every other octet is symbolic.
//! IP-literal *formatting* (`Ipv4Addr::to_string`) is std code driven through `fmt`; where an
//! address is rendered as text the address octets are fixed constants (stated bound).
use crate::util::poll_once;
use bytes::Bytes;
use core::net::{IpAddr, Ipv4Addr, Ipv6Addr, SocketAddr, SocketAddrV4, SocketAddrV6};
use core::task::Poll;
use penguin_socks::{v4, v5, Error};
use core::pin::Pin;
use core::task::Context;
use tokio::io::{AsyncBufRead, AsyncRead, AsyncWrite, ReadBuf};

/// In-memory duplex over fixed arrays (always ready, EOF at the end of `b`).  The byte
/// buffers live in their own (leaked) objects: a memcpy from or into a buffer that shares an
/// object with the cursor state makes CBMC lose the constants of that state (DESIGN §3.7).
pub struct Mem<const N: usize> {
    b: &'static [u8; N],
    pos: usize,
    out: &'static mut [u8; 32],
    out_len: usize,
}
impl<const N: usize> Mem<N> {
    fn new(b: [u8; N]) -> Self {
        Self { b: Box::leak(Box::new(b)), pos: 0, out: Box::leak(Box::new([0; 32])), out_len: 0 }
    }
    fn position(&self) -> usize {
        self.pos
    }
    fn written(&self) -> &[u8] {
        &self.out[..self.out_len]
    }
}
impl<const N: usize> AsyncRead for Mem<N> {
    fn poll_read(self: Pin<&mut Self>, _cx: &mut Context<'_>, buf: &mut ReadBuf<'_>) -> Poll<std::io::Result<()>> {
        let me = self.get_mut();
        let n = core::cmp::min(N - me.pos, buf.remaining());
        buf.put_slice(&me.b[me.pos..me.pos + n]);
        me.pos += n;
        Poll::Ready(Ok(()))
    }
}
impl<const N: usize> AsyncBufRead for Mem<N> {
    fn poll_fill_buf(self: Pin<&mut Self>, _cx: &mut Context<'_>) -> Poll<std::io::Result<&[u8]>> {
        let me = self.get_mut();
        Poll::Ready(Ok(&me.b[me.pos..]))
    }
    fn consume(self: Pin<&mut Self>, amt: usize) {
        let me = self.get_mut();
        me.pos = core::cmp::min(N, me.pos + amt);
    }
}
impl<const N: usize> AsyncWrite for Mem<N> {
    fn poll_write(self: Pin<&mut Self>, _cx: &mut Context<'_>, buf: &[u8]) -> Poll<std::io::Result<usize>> {
        let me = self.get_mut();
        let end = me.out_len + buf.len();
        me.out[me.out_len..end].copy_from_slice(buf);
        me.out_len = end;
        Poll::Ready(Ok(buf.len()))
    }
    fn poll_flush(self: Pin<&mut Self>, _cx: &mut Context<'_>) -> Poll<std::io::Result<()>> {
        Poll::Ready(Ok(()))
    }
    fn poll_shutdown(self: Pin<&mut Self>, _cx: &mut Context<'_>) -> Poll<std::io::Result<()>> {
        Poll::Ready(Ok(()))
    }
}

fn eq_bytes(a: &[u8], b: &[u8]) -> bool {
    if a.len() != b.len() {
        return false;
    }
    let mut i = 0;
    while i < a.len() {
        if a[i] != b[i] {
            return false;
        }
        i += 1;
    }
    true
}

macro_rules! h {
    ($name:ident, $unwind:literal, $body:expr) => {
        #[kani::proof]
        #[kani::unwind($unwind)]
        fn $name() {
            $body
        }
    };
}

// ---------------------------------------------------------------------------------------
// UDP relay header: RSV(2) FRAG(1) ATYP(1) DST.ADDR DST.PORT(2) DATA
// ---------------------------------------------------------------------------------------
/// Domain-name and invalid headers: `atyp` constant, everything else symbolic.
fn udp_parse_domain<const N: usize>(atyp: u8) {
    let mut b: [u8; N] = kani::any();
    if N > 3 {
        b[3] = atyp;
    }
    let r = v5::parse_udp_relay_header(Bytes::copy_from_slice(&b));
    // reference
    let mut ok = false;
    let mut dlen = 0usize;
    if N >= 4 && b[2] == 0 && atyp == 3 && N >= 5 {
        dlen = b[4] as usize;
        ok = N >= 5 + dlen + 2;
    }
    match &r {
        Ok((dst, port, data)) => {
            assert!(ok, "P:C18 UDP relay header accepted although it is malformed/truncated per RFC 1928");
            assert!(eq_bytes(dst, &b[5..5 + dlen]), "P:C18 UDP relay header: wrong DST.ADDR");
            let p = ((b[5 + dlen] as u16) << 8) | b[5 + dlen + 1] as u16;
            assert!(*port == p, "P:C18 UDP relay header: wrong DST.PORT");
            assert!(eq_bytes(data, &b[5 + dlen + 2..]), "P:C18 UDP relay header: wrong payload");
            kani::cover!(true, "?well-formed header parsed");
        }
        Err(e) => {
            assert!(!ok, "P:C18 well-formed UDP relay header rejected");
            if N >= 4 && b[2] != 0 {
                assert!(matches!(e, Error::FragmentedUdp), "P:C18 fragmented UDP datagram not reported as such");
            }
            kani::cover!(true, "?malformed header rejected");
        }
    }
    kani::cover!(true, "parser evaluated");
    core::mem::forget(r);
}
/// IPv4 / IPv6 headers: address octets are constants (rendered as text), the rest symbolic.
fn udp_parse_ip<const N: usize>(v6: bool) {
    let mut b: [u8; N] = kani::any();
    let alen = if v6 { 16 } else { 4 };
    if N > 3 {
        b[3] = if v6 { 4 } else { 1 };
    }
    // fixed address 127.0.0.1 / ::1 (as many octets as fit)
    let mut i = 0;
    while i < alen && 4 + i < N {
        b[4 + i] = if v6 { if i == 15 { 1 } else { 0 } } else { [127, 0, 0, 1][i] };
        i += 1;
    }
    let r = v5::parse_udp_relay_header(Bytes::copy_from_slice(&b));
    let ok = N >= 4 + alen + 2 && b[2] == 0;
    match &r {
        Ok((dst, port, data)) => {
            assert!(ok, "P:C18 UDP relay header accepted although it is malformed/truncated per RFC 1928");
            let want: &[u8] = if v6 { b"::1" } else { b"127.0.0.1" };
            assert!(eq_bytes(dst, want), "P:C18 UDP relay header: wrong DST.ADDR text");
            let p = ((b[4 + alen] as u16) << 8) | b[4 + alen + 1] as u16;
            assert!(*port == p, "P:C18 UDP relay header: wrong DST.PORT");
            assert!(eq_bytes(data, &b[4 + alen + 2..]), "P:C18 UDP relay header: wrong payload");
            kani::cover!(true, "?well-formed header parsed");
        }
        Err(_) => {
            assert!(!ok, "P:C18 well-formed UDP relay header rejected");
            kani::cover!(true, "?malformed header rejected");
        }
    }
    kani::cover!(true, "parser evaluated");
    core::mem::forget(r);
}

/// A conforming client strips RSV RSV FRAG ATYP ADDR PORT and recovers address, port, payload.
fn udp_build<const P: usize>(v6: bool) {
    let data: [u8; P] = kani::any();
    let port: u16 = kani::any();
    let a4: [u8; 4] = kani::any();
    let a6: [u8; 16] = kani::any();
    let target = if v6 {
        SocketAddr::V6(SocketAddrV6::new(Ipv6Addr::from(a6), port, 0, 0))
    } else {
        SocketAddr::V4(SocketAddrV4::new(Ipv4Addr::from(a4), port))
    };
    let out = v5::udp_relay_response(target, &data);
    let alen = if v6 { 16 } else { 4 };
    assert!(out.len() == 4 + alen + 2 + P, "P:C18 UDP relay reply has the wrong length");
    assert!(out[0] == 0 && out[1] == 0, "P:C18 UDP relay reply: RSV not zero");
    assert!(out[2] == 0, "P:C18 UDP relay reply: FRAG not zero");
    assert!(out[3] == if v6 { 4 } else { 1 }, "P:C18 UDP relay reply: ATYP is not the octet before the address");
    let mut i = 0;
    while i < alen {
        assert!(out[4 + i] == if v6 { a6[i] } else { a4[i % 4] }, "P:C18 UDP relay reply: address octets wrong");
        i += 1;
    }
    assert!(out[4 + alen] == (port >> 8) as u8 && out[5 + alen] == port as u8, "P:C18 UDP relay reply: port wrong");
    assert!(eq_bytes(&out[6 + alen..], &data), "P:C18 UDP relay reply: payload wrong");
    kani::cover!(true, "reply built");
    core::mem::forget(out);
}

h!(c18_udp_parse_dom_n0, 20, udp_parse_domain::<0>(3));
h!(c18_udp_parse_dom_n3, 20, udp_parse_domain::<3>(3));
h!(c18_udp_parse_dom_n4, 20, udp_parse_domain::<4>(3));
h!(c18_udp_parse_dom_n5, 20, udp_parse_domain::<5>(3));
h!(c18_udp_parse_dom_n7, 20, udp_parse_domain::<7>(3));
h!(c18_udp_parse_dom_n8, 20, udp_parse_domain::<8>(3));
h!(c18_udp_parse_dom_n10, 20, udp_parse_domain::<10>(3));
h!(c18_udp_parse_badatyp_n10, 20, udp_parse_domain::<10>(2));
h!(c18_udp_parse_badatyp0_n10, 20, udp_parse_domain::<10>(0));
h!(c18_udp_parse_v4_n9, 24, udp_parse_ip::<9>(false));
h!(c18_udp_parse_v4_n10, 24, udp_parse_ip::<10>(false));
h!(c18_udp_parse_v4_n12, 24, udp_parse_ip::<12>(false));
h!(c18_udp_parse_v6_n21, 30, udp_parse_ip::<21>(true));
h!(c18_udp_parse_v6_n22, 30, udp_parse_ip::<22>(true));
h!(c18_udp_parse_v6_n23, 30, udp_parse_ip::<23>(true));
h!(c18_udp_build_v4_p0, 24, udp_build::<0>(false));
h!(c18_udp_build_v4_p3, 24, udp_build::<3>(false));
h!(c18_udp_build_v6_p0, 24, udp_build::<0>(true));
h!(c18_udp_build_v6_p2, 24, udp_build::<2>(true));

// ---------------------------------------------------------------------------------------
// SOCKS5 request: VER CMD RSV ATYP DST.ADDR DST.PORT ; method negotiation: NMETHODS METHODS
// ---------------------------------------------------------------------------------------
/// `N` octets available; `atyp` and (for IP types) the address are constants.
fn v5_request<const N: usize>(atyp: u8, dlen: u8) {
    let mut b: [u8; N] = kani::any();
    let ver_ok: bool = kani::any();
    if N > 0 && ver_ok {
        b[0] = 5;
    }
    if N > 3 {
        b[3] = atyp;
    }
    let alen: usize = match atyp {
        1 => 4,
        4 => 16,
        3 => {
            if N > 4 {
                b[4] = dlen;
            }
            1 + dlen as usize
        }
        _ => 0,
    };
    if atyp == 1 || atyp == 4 {
        let mut i = 0;
        while i < alen && 4 + i < N {
            b[4 + i] = if atyp == 4 { if i == 15 { 1 } else { 0 } } else { [10, 0, 0, 200][i] };
            i += 1;
        }
    }
    let need = 4 + alen + 2;
    let mut cur = Mem::new(b);
    let r = {
        let fut = v5::read_request(&mut cur);
        let mut fut = core::pin::pin!(fut);
        match poll_once(fut.as_mut()) {
            Poll::Ready(r) => r,
            Poll::Pending => panic!("P:C18 SOCKS5 reader pending on an in-memory stream"),
        }
    };
    let good_ver = N > 0 && b[0] == 5;
    let known = atyp == 1 || atyp == 3 || atyp == 4;
    match &r {
        Ok((cmd, addr, port)) => {
            assert!(good_ver && known && N >= need, "P:C18 SOCKS5 request accepted although truncated/malformed");
            assert!(*cmd == b[1], "P:C18 SOCKS5 request: wrong CMD");
            let want: &[u8] = match atyp {
                1 => b"10.0.0.200",
                4 => b"::1",
                _ => &b[5..5 + dlen as usize],
            };
            assert!(eq_bytes(addr, want), "P:C18 SOCKS5 request: wrong DST.ADDR");
            let p = ((b[4 + alen] as u16) << 8) | b[5 + alen] as u16;
            assert!(*port == p, "P:C18 SOCKS5 request: wrong DST.PORT");
            assert!(cur.position() == need, "P:C18 SOCKS5 request: consumed more or fewer octets than the request has");
            kani::cover!(true, "?request parsed");
        }
        Err(e) => {
            assert!(!(good_ver && known && N >= need), "P:C18 well-formed SOCKS5 request rejected");
            if N > 0 && b[0] != 5 {
                assert!(matches!(e, Error::SocksVersion(_)), "P:C18 wrong SOCKS version not reported as such");
            }
            kani::cover!(true, "?request rejected");
        }
    }
    kani::cover!(true, "reader evaluated");
    core::mem::forget(r);
    core::mem::forget(cur);
}
h!(c18_v5req_v4_n0, 24, v5_request::<0>(1, 0));
h!(c18_v5req_v4_n1, 24, v5_request::<1>(1, 0));
h!(c18_v5req_v4_n3, 24, v5_request::<3>(1, 0));
h!(c18_v5req_v4_n4, 24, v5_request::<4>(1, 0));
h!(c18_v5req_v4_n7, 24, v5_request::<7>(1, 0));
h!(c18_v5req_v4_n9, 24, v5_request::<9>(1, 0));
h!(c18_v5req_v4_n10, 24, v5_request::<10>(1, 0));
h!(c18_v5req_v4_n12, 24, v5_request::<12>(1, 0));
h!(c18_v5req_v6_n21, 30, v5_request::<21>(4, 0));
h!(c18_v5req_v6_n22, 30, v5_request::<22>(4, 0));
h!(c18_v5req_dom0_n6, 24, v5_request::<6>(3, 0));
h!(c18_v5req_dom0_n7, 24, v5_request::<7>(3, 0));
h!(c18_v5req_dom2_n8, 24, v5_request::<8>(3, 2));
h!(c18_v5req_dom2_n9, 24, v5_request::<9>(3, 2));
h!(c18_v5req_dom2_n10, 24, v5_request::<10>(3, 2));
h!(c18_v5req_dom1_n4, 24, v5_request::<4>(3, 1));
h!(c18_v5req_dom1_n5, 24, v5_request::<5>(3, 1));
h!(c18_v5req_badatyp_n10, 24, v5_request::<10>(2, 0));
h!(c18_v5req_badatyp5_n10, 24, v5_request::<10>(5, 0));

fn v5_methods<const N: usize>(nm: u8) {
    let mut b: [u8; N] = kani::any();
    if N > 0 {
        b[0] = nm;
    }
    let mut cur = Mem::new(b);
    let r = {
        let fut = v5::read_auth_methods(&mut cur);
        let mut fut = core::pin::pin!(fut);
        match poll_once(fut.as_mut()) {
            Poll::Ready(r) => r,
            Poll::Pending => panic!("P:C18 method reader pending on an in-memory stream"),
        }
    };
    let need = 1 + nm as usize;
    match &r {
        Ok(m) => {
            assert!(N >= need, "P:C18 truncated method list accepted");
            assert!(eq_bytes(m, &b[1..need]), "P:C18 wrong method list");
            assert!(cur.position() == need, "P:C18 method list: consumed the wrong number of octets");
            kani::cover!(true, "?methods parsed");
        }
        Err(_) => {
            assert!(N < need, "P:C18 well-formed method list rejected");
            kani::cover!(true, "?methods rejected");
        }
    }
    kani::cover!(true, "reader evaluated");
    core::mem::forget(r);
    core::mem::forget(cur);
}
h!(c18_v5methods_n0, 12, v5_methods::<0>(0));
h!(c18_v5methods_nm0_n1, 12, v5_methods::<1>(0));
h!(c18_v5methods_nm2_n2, 12, v5_methods::<2>(2));
h!(c18_v5methods_nm2_n3, 12, v5_methods::<3>(2));
h!(c18_v5methods_nm2_n5, 12, v5_methods::<5>(2));

// ---------------------------------------------------------------------------------------
// SOCKS4 / 4a request after the version octet: CD DSTPORT(2) DSTIP(4) USERID NUL [DOMAIN NUL]
// ---------------------------------------------------------------------------------------
/// Shape: `ulen` user-id octets (non-zero) then NUL iff `uterm`; if 4a: `dlen` domain octets
/// (non-zero) then NUL iff `dterm`.  Everything else symbolic.
fn v4_request<const N: usize>(is4a: bool, ulen: usize, uterm: bool, dlen: usize, dterm: bool) {
    let mut b: [u8; N] = kani::any();
    // DSTIP
    if N >= 7 {
        if is4a {
            b[3] = 0;
            b[4] = 0;
            b[5] = 0;
            kani::assume(b[6] != 0);
        } else {
            b[3] = 192;
            b[4] = 168;
            b[5] = 1;
            b[6] = 9;
        }
    }
    let mut pos = 7;
    let mut i = 0;
    while i < ulen && pos < N {
        kani::assume(b[pos] != 0);
        pos += 1;
        i += 1;
    }
    let mut complete = N >= 7 && i == ulen;
    if uterm && pos < N {
        b[pos] = 0;
        pos += 1;
    } else {
        complete = false;
    }
    let dstart = pos;
    if is4a && complete {
        let mut j = 0;
        while j < dlen && pos < N {
            kani::assume(b[pos] != 0);
            pos += 1;
            j += 1;
        }
        complete = j == dlen;
        if dterm && pos < N {
            b[pos] = 0;
            pos += 1;
        } else {
            complete = false;
        }
    }
    // the harness shapes are chosen so that the message ends exactly at N
    let mut cur = Mem::new(b);
    let r = {
        let fut = v4::read_request(&mut cur);
        let mut fut = core::pin::pin!(fut);
        match poll_once(fut.as_mut()) {
            Poll::Ready(r) => r,
            Poll::Pending => panic!("P:C18 SOCKS4 reader pending on an in-memory stream"),
        }
    };
    match &r {
        Ok((cmd, host, port)) => {
            assert!(complete, "P:C18 SOCKS4 request accepted although a field is truncated/unterminated");
            assert!(*cmd == b[0], "P:C18 SOCKS4 request: wrong CD");
            let p = ((b[1] as u16) << 8) | b[2] as u16;
            assert!(*port == p, "P:C18 SOCKS4 request: wrong DSTPORT");
            if is4a {
                assert!(eq_bytes(host, &b[dstart..dstart + dlen]), "P:C18 SOCKS4a request: wrong domain");
            } else {
                assert!(eq_bytes(host, b"192.168.1.9"), "P:C18 SOCKS4 request: wrong DSTIP text");
            }
            assert!(cur.position() == pos, "P:C18 SOCKS4 request: consumed the wrong number of octets");
            kani::cover!(true, "?request parsed");
        }
        Err(_) => {
            assert!(!complete, "P:C18 well-formed SOCKS4 request rejected");
            kani::cover!(true, "?request rejected");
        }
    }
    kani::cover!(true, "reader evaluated");
    core::mem::forget(r);
    core::mem::forget(cur);
}
h!(c18_v4req_ip_u0, 16, v4_request::<8>(false, 0, true, 0, false));
h!(c18_v4req_ip_u2, 16, v4_request::<10>(false, 2, true, 0, false));
h!(c18_v4req_ip_u2_unterminated, 16, v4_request::<9>(false, 2, false, 0, false));
h!(c18_v4req_ip_u0_unterminated, 16, v4_request::<7>(false, 0, false, 0, false));
h!(c18_v4req_ip_trunc_n5, 16, v4_request::<5>(false, 0, false, 0, false));
h!(c18_v4req_ip_trunc_n0, 16, v4_request::<0>(false, 0, false, 0, false));
h!(c18_v4req_4a_u1_d2, 16, v4_request::<12>(true, 1, true, 2, true));
h!(c18_v4req_4a_u0_d0, 16, v4_request::<9>(true, 0, true, 0, true));
h!(c18_v4req_4a_u0_d2_unterminated, 16, v4_request::<10>(true, 0, true, 2, false));
h!(c18_v4req_4a_u0_nodomain, 16, v4_request::<8>(true, 0, true, 0, false));
h!(c18_v4req_4a_u0_d1_unterminated, 16, v4_request::<9>(true, 0, true, 1, false));
h!(c18_v4req_ip_u1_unterminated, 16, v4_request::<8>(false, 1, false, 0, false));

// ---------------------------------------------------------------------------------------
// Replies
// ---------------------------------------------------------------------------------------
fn run_write<F: core::future::Future<Output = Result<(), Error>>>(f: F) {
    let mut f = core::pin::pin!(f);
    match poll_once(f.as_mut()) {
        Poll::Ready(Ok(())) => {}
        Poll::Ready(Err(e)) => {
            core::mem::forget(e);
            panic!("P:C18 reply writer failed on an in-memory sink")
        }
        Poll::Pending => panic!("P:C18 reply writer pending on an in-memory sink"),
    }
}
fn v5_reply(v6: bool) {
    let code: u8 = kani::any();
    let port: u16 = kani::any();
    let a4: [u8; 4] = kani::any();
    let a6: [u8; 16] = kani::any();
    let local = if v6 {
        SocketAddr::V6(SocketAddrV6::new(Ipv6Addr::from(a6), port, 0, 0))
    } else {
        SocketAddr::V4(SocketAddrV4::new(Ipv4Addr::from(a4), port))
    };
    let mut w = Mem::<0>::new([]);
    run_write(v5::write_response(&mut w, code, local));
    let out = w.written();
    let alen = if v6 { 16 } else { 4 };
    assert!(out.len() == 4 + alen + 2, "P:C18 SOCKS5 reply has the wrong length");
    assert!(out[0] == 5 && out[1] == code && out[2] == 0 && out[3] == if v6 { 4 } else { 1 }, "P:C18 SOCKS5 reply header wrong");
    let mut i = 0;
    while i < alen {
        assert!(out[4 + i] == if v6 { a6[i] } else { a4[i % 4] }, "P:C18 SOCKS5 reply: BND.ADDR wrong");
        i += 1;
    }
    assert!(out[4 + alen] == (port >> 8) as u8 && out[5 + alen] == port as u8, "P:C18 SOCKS5 reply: BND.PORT wrong");
    kani::cover!(true, "reply written");
    core::mem::forget(w);
}
fn small_replies() {
    let code: u8 = kani::any();
    let mut w = Mem::<0>::new([]);
    run_write(v5::write_response_unspecified(&mut w, code));
    assert!(eq_bytes(w.written(), &[5, code, 0, 1, 0, 0, 0, 0, 0, 0]), "P:C18 SOCKS5 unspecified-address reply wrong");
    core::mem::forget(w);
    let mut w = Mem::<0>::new([]);
    run_write(v5::write_auth_method(&mut w, code));
    assert!(eq_bytes(w.written(), &[5, code]), "P:C18 SOCKS5 method selection wrong");
    core::mem::forget(w);
    let mut w = Mem::<0>::new([]);
    run_write(v4::write_response(&mut w, code));
    assert!(eq_bytes(w.written(), &[0, code, 0, 0, 0, 0, 0, 0]), "P:C18 SOCKS4 reply wrong");
    kani::cover!(true, "reply written");
    core::mem::forget(w);
}
h!(c18_v5reply_v4, 24, v5_reply(false));
h!(c18_v5reply_v6, 24, v5_reply(true));
h!(c18_small_replies, 16, small_replies());
