//! External Kani harnesses: drive the public API of the crates copied from /repo's
//! current working tree.  Every property assertion message starts with "P:" so that the
//! driver can tell a violated property from a panic raised by the code under test.
#![allow(unused, clippy::all)]

#[cfg(kani)]
pub mod util;

#[cfg(kani)]
pub mod c20;
#[cfg(kani)]
pub mod c09;
#[cfg(kani)]
pub mod c18;
#[cfg(kani)]
pub mod c19;
