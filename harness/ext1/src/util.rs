//! Small helpers shared by the external harnesses.
use core::future::Future;
use core::pin::Pin;
use core::task::{Context, Poll, RawWaker, RawWakerVTable, Waker};

fn noop_raw() -> RawWaker {
    fn clone(_: *const ()) -> RawWaker {
        noop_raw()
    }
    fn noop(_: *const ()) {}
    static VT: RawWakerVTable = RawWakerVTable::new(clone, noop, noop, noop);
    RawWaker::new(core::ptr::null(), &VT)
}

pub fn noop_waker() -> Waker {
    unsafe { Waker::from_raw(noop_raw()) }
}

/// Poll a future exactly once.
pub fn poll_once<F: Future>(f: Pin<&mut F>) -> Poll<F::Output> {
    let w = noop_waker();
    let mut cx = Context::from_waker(&w);
    f.poll(&mut cx)
}

/// Poll a future up to `n` times; `None` if it is still pending.
pub fn poll_n<F: Future>(mut f: Pin<&mut F>, n: usize) -> Option<F::Output> {
    let w = noop_waker();
    let mut cx = Context::from_waker(&w);
    let mut i = 0;
    while i < n {
        if let Poll::Ready(v) = f.as_mut().poll(&mut cx) {
            return Some(v);
        }
        i += 1;
    }
    None
}
