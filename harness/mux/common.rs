//! Shared helpers for the in-crate Kani harnesses (mounted at the crate root of the scratch
//! copy of penguin-mux as `crate::verif_common`, under cfg(kani) only).
#![allow(unused, clippy::all, clippy::pedantic, clippy::nursery, missing_docs, missing_debug_implementations)]
extern crate std;
use crate::config::Options;
use crate::frame::{Frame, OpCode};
use crate::task::{Task, TaskData};
use crate::timing::TimestampProvider;
use crate::ws::{Message, WebSocket};
use crate::{Multiplexor, MuxStream};
use alloc::boxed::Box;
use alloc::vec::Vec;
use bytes::Bytes;
use core::future::Future;
use core::pin::Pin;
use core::sync::atomic::{AtomicUsize, Ordering};
use core::task::{Context, Poll, RawWaker, RawWakerVTable, Waker};
use tokio::sync::mpsc;

// ---------------------------------------------------------------------------------------
// Property assertions.  penguin-mux is `#![no_std]`, so `assert!(c, "msg")` is core's macro and
// Kani cannot show its message ("placeholder"); `kani::assert` keeps the text, which the driver
// needs to tell a property violation ("P:...") from a panic of the code under test.
// ---------------------------------------------------------------------------------------
#[macro_export]
macro_rules! vassert {
    ($c:expr, $m:literal) => {
        kani::assert($c, $m)
    };
}
#[macro_export]
macro_rules! vfail {
    ($m:literal) => {{
        kani::assert(false, $m);
        kani::assume(false);
        unreachable!()
    }};
}

// ---------------------------------------------------------------------------------------
// Wakers.  `counting_waker()` counts wake-ups in a static; clone/drop do nothing else.
// ---------------------------------------------------------------------------------------
pub static WAKES: AtomicUsize = AtomicUsize::new(0);
pub static CLONES: AtomicUsize = AtomicUsize::new(0);
/// Observation points for "what is visible at the moment of the wake-up" (C12).
pub static mut WAKE_OBS_CREDIT: *const crate::loom::AtomicU32 = core::ptr::null();
pub static mut WAKE_OBS_CLOSED: *const crate::loom::AtomicBool = core::ptr::null();
pub static mut WAKE_SEEN_CREDIT: u32 = 0;
pub static mut WAKE_SEEN_CLOSED: bool = false;
fn cw_raw() -> RawWaker {
    fn clone(_: *const ()) -> RawWaker {
        CLONES.fetch_add(1, Ordering::Relaxed);
        cw_raw()
    }
    fn wake(_: *const ()) {
        // what a task re-polled at this very moment would see (first wake-up only)
        unsafe {
            if WAKES.load(Ordering::Relaxed) == 0 {
                if !WAKE_OBS_CREDIT.is_null() {
                    WAKE_SEEN_CREDIT = (*WAKE_OBS_CREDIT).raw().load(Ordering::Acquire);
                }
                if !WAKE_OBS_CLOSED.is_null() {
                    WAKE_SEEN_CLOSED = (*WAKE_OBS_CLOSED).raw().load(Ordering::Acquire);
                }
            }
        }
        WAKES.fetch_add(1, Ordering::Relaxed);
    }
    fn drop(_: *const ()) {}
    static VT: RawWakerVTable = RawWakerVTable::new(clone, wake, wake, drop);
    RawWaker::new(core::ptr::null(), &VT)
}
pub fn counting_waker() -> Waker {
    unsafe { Waker::from_raw(cw_raw()) }
}
pub fn wakes() -> usize {
    WAKES.load(Ordering::Relaxed)
}
pub fn waker_clones() -> usize {
    CLONES.load(Ordering::Relaxed)
}
/// Poll a future once with the counting waker.
pub fn poll_once<F: Future>(f: Pin<&mut F>) -> Poll<F::Output> {
    let w = counting_waker();
    let mut cx = Context::from_waker(&w);
    f.poll(&mut cx)
}
/// Run a future that must complete in its first poll (no awaited resource is unavailable).
pub fn now_or_never<F: Future>(f: F) -> Option<F::Output> {
    let mut f = core::mem::ManuallyDrop::new(f);
    // SAFETY: `f` is never moved again and never dropped
    let p = unsafe { Pin::new_unchecked(&mut *f) };
    match poll_once(p) {
        Poll::Ready(v) => Some(v),
        Poll::Pending => None,
    }
}

// ---------------------------------------------------------------------------------------
// Scheduling hook used by the tracing shim (C12).  The harness installs an action index.
// ---------------------------------------------------------------------------------------
pub static SCHED_FIRE_AT: AtomicUsize = AtomicUsize::new(usize::MAX);
pub static SCHED_FIRED: AtomicUsize = AtomicUsize::new(0);
pub fn verif_sched_point(index: usize) {
    if index == SCHED_FIRE_AT.load(Ordering::Relaxed) {
        SCHED_FIRED.fetch_add(1, Ordering::Relaxed);
        crate::verif_common::sched_action();
    }
}
/// The injected operation; set by the C12 harness through `SCHED_TARGET`.
pub static SCHED_TARGET: std::sync::Mutex<Option<SchedTarget>> = std::sync::Mutex::new(None);
pub struct SchedTarget {
    pub data: *const crate::EstablishedStreamData,
    /// 0 = acknowledge(n), 1 = disallow_write(), 2 = `task_fn(task, n)` (an action of the
    /// connection task that needs private items of task.rs; a fn pointer of a signature that
    /// nothing else in the program has)
    pub kind: u8,
    pub n: u32,
    pub task: *const TTask,
    pub task_fn: Option<fn(*const TTask, u32)>,
    /// kind 3 = one poll of the writer (`poll_obtain_write_permission`) on `stream`, through a fn
    /// pointer supplied by the stream harness module (the method is private to stream.rs); the
    /// result is left in `WRITER_RESULT`
    pub stream: *mut MuxStream,
    pub writer_fn: Option<fn(*mut MuxStream) -> u8>,
}
/// 0 pending, 1 Ready(Some) = credit taken, 2 Ready(None) = closed; 9 = not run
pub static WRITER_RESULT: core::sync::atomic::AtomicU8 = core::sync::atomic::AtomicU8::new(9);
unsafe impl Send for SchedTarget {}
pub fn sched_action() {
    let g = SCHED_TARGET.lock().unwrap();
    if let Some(t) = g.as_ref() {
        // SAFETY: the harness keeps the stream data alive for the whole run
        if t.kind == 2 {
            if let Some(f) = t.task_fn {
                f(t.task, t.n);
            }
            return;
        }
        if t.kind == 3 {
            if let Some(f) = t.writer_fn {
                WRITER_RESULT.store(f(t.stream), Ordering::Relaxed);
            }
            return;
        }
        let d = unsafe { &*t.data };
        if t.kind == 0 {
            d.acknowledge(t.n);
        } else {
            d.disallow_write();
        }
    }
}

// ---------------------------------------------------------------------------------------
// Instrumented atomics (C12 at the granularity of individual atomic operations).  In the
// scratch copy `crate::loom::{AtomicU32, AtomicBool}` are these wrappers (lib/vdriver.py rewrites
// the re-export in loom.rs under cfg(kani)): every operation first passes an *atomic scheduling
// point*.  A point is a no-op unless a harness armed it; the `ATOM_FIRE_AT`-th point runs the
// other party's whole operation (`sched_action`) before the atomic operation takes effect.
// `compare_exchange_weak` is modelled by the strong form (no spurious failure); `fetch_update`
// is the load / compare-exchange loop std documents, so the other party can run between the two.
// ---------------------------------------------------------------------------------------
pub static ATOM_ARMED: core::sync::atomic::AtomicBool = core::sync::atomic::AtomicBool::new(false);
pub static ATOM_POINTS: AtomicUsize = AtomicUsize::new(0);
pub static ATOM_FIRE_AT: AtomicUsize = AtomicUsize::new(usize::MAX);
pub static ATOM_FIRED: AtomicUsize = AtomicUsize::new(0);
pub fn atom_arm(fire_at: usize) {
    ATOM_POINTS.store(0, Ordering::Relaxed);
    ATOM_FIRED.store(0, Ordering::Relaxed);
    ATOM_FIRE_AT.store(fire_at, Ordering::Relaxed);
    ATOM_ARMED.store(true, Ordering::Relaxed);
}
pub fn atom_disarm() {
    ATOM_ARMED.store(false, Ordering::Relaxed);
}
#[inline(never)]
pub fn atomic_point() {
    if ATOM_ARMED.load(Ordering::Relaxed) {
        let i = ATOM_POINTS.fetch_add(1, Ordering::Relaxed);
        if i == ATOM_FIRE_AT.load(Ordering::Relaxed) {
            // not re-entrant: the injected operation performs atomic operations as well
            ATOM_ARMED.store(false, Ordering::Relaxed);
            ATOM_FIRED.fetch_add(1, Ordering::Relaxed);
            sched_action();
            ATOM_ARMED.store(true, Ordering::Relaxed);
        }
    }
}
/// `raw()` on the plain atomics too, so that the harnesses read the same way whether or not the
/// scratch copy is instrumented (the wrappers have an inherent `raw()`).
pub trait RawView<T> {
    fn raw(&self) -> &T;
}
impl RawView<core::sync::atomic::AtomicU32> for core::sync::atomic::AtomicU32 {
    fn raw(&self) -> &core::sync::atomic::AtomicU32 {
        self
    }
}
impl RawView<core::sync::atomic::AtomicBool> for core::sync::atomic::AtomicBool {
    fn raw(&self) -> &core::sync::atomic::AtomicBool {
        self
    }
}
pub struct VAtomicU32(core::sync::atomic::AtomicU32);
impl VAtomicU32 {
    pub const fn new(v: u32) -> Self {
        Self(core::sync::atomic::AtomicU32::new(v))
    }
    /// harness-side observation without a scheduling point
    pub fn raw(&self) -> &core::sync::atomic::AtomicU32 {
        &self.0
    }
    pub fn load(&self, o: Ordering) -> u32 {
        atomic_point();
        self.0.load(o)
    }
    pub fn store(&self, v: u32, o: Ordering) {
        atomic_point();
        self.0.store(v, o)
    }
    pub fn swap(&self, v: u32, o: Ordering) -> u32 {
        atomic_point();
        self.0.swap(v, o)
    }
    pub fn fetch_add(&self, v: u32, o: Ordering) -> u32 {
        atomic_point();
        self.0.fetch_add(v, o)
    }
    pub fn fetch_sub(&self, v: u32, o: Ordering) -> u32 {
        atomic_point();
        self.0.fetch_sub(v, o)
    }
    pub fn compare_exchange(&self, c: u32, n: u32, s: Ordering, f: Ordering) -> Result<u32, u32> {
        atomic_point();
        self.0.compare_exchange(c, n, s, f)
    }
    pub fn compare_exchange_weak(&self, c: u32, n: u32, s: Ordering, f: Ordering) -> Result<u32, u32> {
        atomic_point();
        self.0.compare_exchange(c, n, s, f)
    }
    pub fn fetch_update<F: FnMut(u32) -> Option<u32>>(&self, s: Ordering, fo: Ordering, mut f: F) -> Result<u32, u32> {
        let mut prev = self.load(fo);
        while let Some(next) = f(prev) {
            match self.compare_exchange_weak(prev, next, s, fo) {
                x @ Ok(_) => return x,
                Err(p) => prev = p,
            }
        }
        Err(prev)
    }
    pub fn get_mut(&mut self) -> &mut u32 {
        self.0.get_mut()
    }
    pub fn into_inner(self) -> u32 {
        self.0.into_inner()
    }
}
impl core::fmt::Debug for VAtomicU32 {
    fn fmt(&self, f: &mut core::fmt::Formatter<'_>) -> core::fmt::Result {
        f.write_str("AtomicU32")
    }
}
pub struct VAtomicBool(core::sync::atomic::AtomicBool);
impl VAtomicBool {
    pub const fn new(v: bool) -> Self {
        Self(core::sync::atomic::AtomicBool::new(v))
    }
    pub fn raw(&self) -> &core::sync::atomic::AtomicBool {
        &self.0
    }
    pub fn load(&self, o: Ordering) -> bool {
        atomic_point();
        self.0.load(o)
    }
    pub fn store(&self, v: bool, o: Ordering) {
        atomic_point();
        self.0.store(v, o)
    }
    pub fn swap(&self, v: bool, o: Ordering) -> bool {
        atomic_point();
        self.0.swap(v, o)
    }
    pub fn fetch_or(&self, v: bool, o: Ordering) -> bool {
        atomic_point();
        self.0.fetch_or(v, o)
    }
    pub fn fetch_and(&self, v: bool, o: Ordering) -> bool {
        atomic_point();
        self.0.fetch_and(v, o)
    }
    pub fn compare_exchange(&self, c: bool, n: bool, s: Ordering, f: Ordering) -> Result<bool, bool> {
        atomic_point();
        self.0.compare_exchange(c, n, s, f)
    }
    pub fn compare_exchange_weak(&self, c: bool, n: bool, s: Ordering, f: Ordering) -> Result<bool, bool> {
        atomic_point();
        self.0.compare_exchange(c, n, s, f)
    }
    pub fn get_mut(&mut self) -> &mut bool {
        self.0.get_mut()
    }
    pub fn into_inner(self) -> bool {
        self.0.into_inner()
    }
}
impl core::fmt::Debug for VAtomicBool {
    fn fmt(&self, f: &mut core::fmt::Formatter<'_>) -> core::fmt::Result {
        f.write_str("AtomicBool")
    }
}

// ---------------------------------------------------------------------------------------
// Environment: clock, RNG, WebSocket
// ---------------------------------------------------------------------------------------
/// Timestamps read the tokio shim's virtual clock (milliseconds).
#[derive(Clone, Copy, Debug, PartialEq, Eq)]
pub struct Clock(pub u64);
impl TimestampProvider for Clock {
    fn now() -> Self {
        Clock(tokio::time::verif::now_ms())
    }
    fn duration_since(&self, e: Self) -> core::time::Duration {
        core::time::Duration::from_millis(self.0.saturating_sub(e.0))
    }
}

/// RNG whose draws are chosen by the solver (at most `RNG_DRAWS` per harness).
pub const RNG_DRAWS: usize = 4;
pub struct KRng {
    pub draws: [u32; RNG_DRAWS],
    pub used: usize,
}
impl KRng {
    pub fn any() -> Self {
        Self { draws: kani::any(), used: 0 }
    }
    pub fn fixed(d: [u32; RNG_DRAWS]) -> Self {
        Self { draws: d, used: 0 }
    }
}
impl rand::TryRng for KRng {
    type Error = core::convert::Infallible;
    fn try_next_u32(&mut self) -> Result<u32, Self::Error> {
        // sequences that need more draws are outside the bound (stated in the evidence)
        kani::assume(self.used < RNG_DRAWS);
        let v = self.draws[self.used];
        self.used += 1;
        Ok(v)
    }
    fn try_next_u64(&mut self) -> Result<u64, Self::Error> {
        let a = self.try_next_u32()? as u64;
        let b = self.try_next_u32()? as u64;
        Ok((a << 32) | b)
    }
    fn try_fill_bytes(&mut self, dst: &mut [u8]) -> Result<(), Self::Error> {
        for b in dst {
            *b = self.try_next_u32()? as u8;
        }
        Ok(())
    }
}

/// Result of one scripted call on the WebSocket.
#[derive(Clone, Copy, PartialEq, Eq, Debug)]
pub enum Step {
    Ok,
    Pending,
    Err,
}
pub const WS_IN: usize = 3;
pub const WS_OUT: usize = 6;
/// Scripted in-memory WebSocket: delivers `inbox[..in_len]` in order, then behaves as
/// `at_end` (Pending = silent transport, Ok = stream end `None`, Err = transport error);
/// records everything passed to `start_send`; sink readiness/flush/close are scripted.
pub struct ScriptWs {
    pub inbox: [Option<Message>; WS_IN],
    pub in_pos: usize,
    pub in_len: usize,
    pub at_end: Step,
    pub ready: Step,
    pub send: Step,
    pub flush: Step,
    pub close: Step,
    pub sent: [Option<Message>; WS_OUT],
    pub sent_len: usize,
    pub flushed_upto: usize,
    pub closed: bool,
    pub next_waker_parked: bool,
    pub sink_waker_parked: bool,
}
impl ScriptWs {
    pub fn new() -> Self {
        Self {
            inbox: [const { None }; WS_IN],
            in_pos: 0,
            in_len: 0,
            at_end: Step::Pending,
            ready: Step::Ok,
            send: Step::Ok,
            flush: Step::Ok,
            close: Step::Ok,
            sent: [const { None }; WS_OUT],
            sent_len: 0,
            flushed_upto: 0,
            closed: false,
            next_waker_parked: false,
            sink_waker_parked: false,
        }
    }
    pub fn push_in(&mut self, m: Message) {
        assert!(self.in_len < WS_IN, "BOUND: scripted WebSocket inbox full");
        core::mem::forget(core::mem::replace(&mut self.inbox[self.in_len], Some(m)));
        self.in_len += 1;
    }
}
fn ws_err() -> crate::Error {
    crate::Error::ChannelClosed("scripted transport error")
}
impl WebSocket for ScriptWs {
    fn poll_ready_unpin(&mut self, _cx: &mut Context<'_>) -> Poll<Result<(), crate::Error>> {
        match self.ready {
            Step::Ok => Poll::Ready(Ok(())),
            Step::Pending => {
                self.sink_waker_parked = true;
                Poll::Pending
            }
            Step::Err => Poll::Ready(Err(ws_err())),
        }
    }
    fn start_send_unpin(&mut self, item: Message) -> Result<(), crate::Error> {
        if self.send == Step::Err {
            core::mem::forget(item);
            return Err(ws_err());
        }
        assert!(self.sent_len < WS_OUT, "BOUND: scripted WebSocket send log full");
        core::mem::forget(core::mem::replace(&mut self.sent[self.sent_len], Some(item)));
        self.sent_len += 1;
        Ok(())
    }
    fn poll_flush_unpin(&mut self, _cx: &mut Context<'_>) -> Poll<Result<(), crate::Error>> {
        match self.flush {
            Step::Ok => {
                self.flushed_upto = self.sent_len;
                Poll::Ready(Ok(()))
            }
            Step::Pending => {
                self.sink_waker_parked = true;
                Poll::Pending
            }
            Step::Err => Poll::Ready(Err(ws_err())),
        }
    }
    fn poll_close_unpin(&mut self, _cx: &mut Context<'_>) -> Poll<Result<(), crate::Error>> {
        match self.close {
            Step::Ok => {
                self.flushed_upto = self.sent_len;
                self.closed = true;
                Poll::Ready(Ok(()))
            }
            Step::Pending => {
                self.sink_waker_parked = true;
                Poll::Pending
            }
            Step::Err => {
                self.closed = true;
                Poll::Ready(Err(ws_err()))
            }
        }
    }
    fn poll_next_unpin(&mut self, _cx: &mut Context<'_>) -> Poll<Option<Result<Message, crate::Error>>> {
        if self.in_pos < self.in_len {
            let m = self.inbox[self.in_pos].take();
            self.in_pos += 1;
            return Poll::Ready(m.map(Ok));
        }
        match self.at_end {
            Step::Ok => Poll::Ready(None),
            Step::Pending => {
                self.next_waker_parked = true;
                Poll::Pending
            }
            Step::Err => Poll::Ready(Some(Err(ws_err()))),
        }
    }
}

// ---------------------------------------------------------------------------------------
// Endpoint under test
// ---------------------------------------------------------------------------------------
pub type TTask = Task<ScriptWs, Clock>;
pub struct Endpoint {
    pub mux: Multiplexor<KRng>,
    pub task: TTask,
    pub tx_msg_rx: mpsc::UnboundedReceiver<Message>,
    pub dropped_flows_rx: mpsc::UnboundedReceiver<u32>,
}
/// Small default bounds so that every queue fits the model channels.
pub fn small_options() -> Options {
    Options::new().rwnd(2).default_rwnd_threshold(2).datagram_buffer_size(2).stream_buffer_size(2).bind_buffer_size(0)
}
pub fn endpoint(opts: Options, rng: KRng) -> Endpoint {
    let (mux, td) = Multiplexor::<KRng>::new_detailed::<ScriptWs, Clock>(ScriptWs::new(), opts, rng);
    let TaskData { task, tx_msg_rx, dropped_flows_rx } = td;
    Endpoint { mux, task, tx_msg_rx, dropped_flows_rx }
}

/// What the endpoint has queued for the wire.  The header is read by hand (octet 0 low
/// nibble = opcode, octets 1..5 = flow id, PROTOCOL.md): the encoder is the real one, and
/// running the real decoder on heap bytes would explore every decoder arm.
#[derive(Clone, Copy, PartialEq, Eq, Debug)]
pub enum Out {
    Nothing,
    Frame { op: OpCode, id: u32 },
    Ping,
    Pong,
    Close,
    Undecodable,
}
pub fn classify(b: &[u8]) -> Out {
    if b.len() < 5 || b[0] >> 4 != 7 {
        return Out::Undecodable;
    }
    let op = match b[0] & 0x0f {
        0 => OpCode::Connect,
        1 => OpCode::Acknowledge,
        2 => OpCode::Reset,
        3 => OpCode::Finish,
        4 => OpCode::Push,
        5 => OpCode::Bind,
        6 => OpCode::Datagram,
        _ => return Out::Undecodable,
    };
    Out::Frame { op, id: be32(b, 1) }
}
/// Pop the next outbound message (queued on `tx_msg_tx`) and classify it.
pub fn pop_out(rx: &mut mpsc::UnboundedReceiver<Message>) -> Out {
    match rx.try_recv() {
        Err(_) => Out::Nothing,
        Ok(Message::Ping) => Out::Ping,
        Ok(Message::Pong) => Out::Pong,
        Ok(Message::Close) => Out::Close,
        Ok(Message::Binary(b)) => classify(&b[..]),
    }
}
/// Pop the next outbound message and return its bytes (None if not a Binary message).
pub fn pop_out_bytes(rx: &mut mpsc::UnboundedReceiver<Message>) -> Option<Bytes> {
    match rx.try_recv() {
        Ok(Message::Binary(b)) => Some(b),
        Ok(_) => None,
        Err(_) => None,
    }
}
/// Big-endian u32 at `off`.
pub fn be32(b: &[u8], off: usize) -> u32 {
    ((b[off] as u32) << 24) | ((b[off + 1] as u32) << 16) | ((b[off + 2] as u32) << 8) | (b[off + 3] as u32)
}
pub fn be16(b: &[u8], off: usize) -> u16 {
    ((b[off] as u16) << 8) | (b[off + 1] as u16)
}
pub fn bytes_eq(a: &[u8], b: &[u8]) -> bool {
    if a.len() != b.len() {
        return false;
    }
    let mut i = 0;
    while i < a.len() {
        if a[i] != b[i] {
            return false;
        }
        i += 1;
    }
    true
}

// ---------------------------------------------------------------------------------------
// A free-standing stream (no connection task): used by the MuxStream and bridge harnesses
// ---------------------------------------------------------------------------------------
use crate::loom::{Arc, AtomicBool, AtomicU32, AtomicWaker};
use crate::EstablishedStreamData;
pub const FLOW: u32 = 0x0102_0304;

/// The connection task's and the wire's ends of one stream.
pub struct Ends {
    pub inbound_tx: Option<mpsc::Sender<Bytes>>,
    pub out_rx: mpsc::UnboundedReceiver<Message>,
    pub dropped_rx: mpsc::UnboundedReceiver<u32>,
    pub data: EstablishedStreamData,
}
/// A stream in an arbitrary bounded state: `credit` units of send credit, inbound queue of
/// capacity `rwnd`, acknowledgement threshold `threshold`, `since` frames consumed since the
/// last acknowledgement, `finish` = writes already shut.
pub fn mk_stream(credit: u32, rwnd: usize, threshold: u32, since: u32, finish: bool) -> (MuxStream, Ends) {
    let (inbound_tx, rx_frame_rx) = mpsc::channel(rwnd);
    let (tx_msg_tx, out_rx) = mpsc::unbounded_channel();
    let (dropped_flows_tx, dropped_rx) = mpsc::unbounded_channel();
    let finish_sent = Arc::new(AtomicBool::new(finish));
    let psh_send_remaining = Arc::new(AtomicU32::new(credit));
    let writer_waker = Arc::new(AtomicWaker::new());
    let data = EstablishedStreamData {
        sender: None,
        finish_sent: finish_sent.clone(),
        psh_send_remaining: psh_send_remaining.clone(),
        writer_waker: writer_waker.clone(),
    };
    let s = MuxStream {
        rx_frame_rx,
        flow_id: FLOW,
        dest_host: Bytes::new(),
        dest_port: 0,
        finish_sent,
        psh_send_remaining,
        psh_recvd_since: since,
        writer_waker,
        buf: Bytes::new(),
        tx_msg_tx,
        dropped_flows_tx,
        rwnd_threshold: threshold,
    };
    (s, Ends { inbound_tx: Some(inbound_tx), out_rx, dropped_rx, data })
}
