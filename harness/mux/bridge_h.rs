//! C13 — the stream-to-socket bridge (`CopyBidirectional`), mounted as a child module of
//! `stream_tools/copy_bidirectional.rs` (private `poll_read_us` / `poll_write_us`, states).
//!
//! The local side is a scripted `AsyncBufRead + AsyncWrite` whose every call result is chosen
//! by the solver from a small alphabet; the mux side is a real `MuxStream` in an arbitrary
//! bounded state.
#![allow(unused, clippy::all, clippy::pedantic, clippy::nursery, missing_docs)]
extern crate std;
use super::*;
use crate::frame::{self, Frame};
use crate::stream::MuxStream;
use crate::ws::Message;
use alloc::vec::Vec;
use core::pin::Pin;
use core::task::{ready, Context, Poll};
use tokio::io::{AsyncBufRead, AsyncWrite};
use crate::frame::OpCode;
use crate::verif_common::*;
use crate::{vassert, vfail};
use bytes::Bytes;
use core::future::Future;
use core::sync::atomic::Ordering as AO;
use tokio::io::{AsyncRead, ReadBuf};

/// Script codes for `poll_fill_buf`: what the local side does at its next call.
#[derive(Clone, Copy, PartialEq, Eq)]
pub enum Fill {
    Pending,
    Data1,
    Data2,
    Eof,
    Err,
}
fn any_fill() -> Fill {
    match kani::any::<u8>() % 5 {
        0 => Fill::Pending,
        1 => Fill::Data1,
        2 => Fill::Data2,
        3 => Fill::Eof,
        _ => Fill::Err,
    }
}
pub const NSCRIPT: usize = 3;
pub struct Local {
    // read side
    pub script: [Fill; NSCRIPT],
    pub pos: usize,
    pub data: &'static [u8; 6], // bytes the local side will produce, in order (own object: see DESIGN §3.7)
    pub produced: usize,   // bytes handed out AND consumed so far
    pub cur_left: usize,   // bytes of the current Data entry not yet consumed
    pub fill_parked: bool, // a Pending fill_buf holds our waker
    pub read_err_returned: bool,
    // write side
    pub wres: Step,
    pub wmax: usize, // a write accepts at most this many bytes (>= 1)
    pub out: [u8; 8],
    pub out_len: usize,
    pub write_parked: bool,
    pub fres: Step,
    pub flushes: usize,
    pub sres: Step,
    pub shutdowns: usize,
}
impl Local {
    pub fn any() -> Self {
        let wmax: usize = kani::any();
        kani::assume(wmax >= 1 && wmax <= 2);
        Local {
            script: [any_fill(), any_fill(), any_fill()],
            pos: 0,
            data: std::boxed::Box::leak(std::boxed::Box::new(kani::any::<[u8; 6]>())),
            produced: 0,
            cur_left: 0,
            fill_parked: false,
            read_err_returned: false,
            wres: any_step(),
            wmax,
            out: [0; 8],
            out_len: 0,
            write_parked: false,
            fres: any_step(),
            flushes: 0,
            sres: any_step(),
            shutdowns: 0,
        }
    }
}
fn any_step() -> Step {
    match kani::any::<u8>() % 3 {
        0 => Step::Ok,
        1 => Step::Pending,
        _ => Step::Err,
    }
}
fn io_err() -> std::io::Error {
    std::io::Error::from(std::io::ErrorKind::ConnectionReset)
}
impl AsyncRead for Local {
    fn poll_read(self: Pin<&mut Self>, _cx: &mut Context<'_>, _buf: &mut ReadBuf<'_>) -> Poll<std::io::Result<()>> {
        unreachable!("the bridge reads through AsyncBufRead")
    }
}
impl AsyncBufRead for Local {
    fn poll_fill_buf(self: Pin<&mut Self>, _cx: &mut Context<'_>) -> Poll<std::io::Result<&[u8]>> {
        let me = self.get_mut();
        if me.cur_left > 0 {
            // unconsumed data is returned again (AsyncBufRead contract)
            return Poll::Ready(Ok(&me.data[me.produced..me.produced + me.cur_left]));
        }
        // after the script: end of stream
        let f = if me.pos < NSCRIPT { me.script[me.pos] } else { Fill::Eof };
        match f {
            Fill::Pending => {
                me.pos += 1;
                me.fill_parked = true;
                Poll::Pending
            }
            Fill::Data1 | Fill::Data2 => {
                me.pos += 1;
                me.cur_left = if f == Fill::Data1 { 1 } else { 2 };
                Poll::Ready(Ok(&me.data[me.produced..me.produced + me.cur_left]))
            }
            Fill::Eof => Poll::Ready(Ok(&[])),
            Fill::Err => {
                me.pos += 1;
                me.read_err_returned = true;
                Poll::Ready(Err(io_err()))
            }
        }
    }
    fn consume(self: Pin<&mut Self>, amt: usize) {
        let me = self.get_mut();
        assert!(amt <= me.cur_left, "bridge consumed more than the local side offered");
        me.cur_left -= amt;
        me.produced += amt;
    }
}
impl AsyncWrite for Local {
    fn poll_write(self: Pin<&mut Self>, _cx: &mut Context<'_>, buf: &[u8]) -> Poll<std::io::Result<usize>> {
        let me = self.get_mut();
        match me.wres {
            Step::Pending => {
                me.write_parked = true;
                Poll::Pending
            }
            Step::Err => Poll::Ready(Err(io_err())),
            Step::Ok => {
                let n = if buf.len() < me.wmax { buf.len() } else { me.wmax };
                // wmax <= 2: no loop (a loop here is unwound once per relay-loop iteration)
                if n >= 1 {
                    me.out[me.out_len] = buf[0];
                    me.out_len += 1;
                }
                if n >= 2 {
                    me.out[me.out_len] = buf[1];
                    me.out_len += 1;
                }
                Poll::Ready(Ok(n))
            }
        }
    }
    fn poll_flush(self: Pin<&mut Self>, _cx: &mut Context<'_>) -> Poll<std::io::Result<()>> {
        let me = self.get_mut();
        me.flushes += 1;
        match me.fres {
            Step::Ok => Poll::Ready(Ok(())),
            Step::Pending => {
                me.write_parked = true;
                Poll::Pending
            }
            Step::Err => Poll::Ready(Err(io_err())),
        }
    }
    fn poll_shutdown(self: Pin<&mut Self>, _cx: &mut Context<'_>) -> Poll<std::io::Result<()>> {
        let me = self.get_mut();
        me.shutdowns += 1;
        match me.sres {
            Step::Ok => Poll::Ready(Ok(())),
            Step::Pending => {
                me.write_parked = true;
                Poll::Pending
            }
            Step::Err => Poll::Ready(Err(io_err())),
        }
    }
}

fn cx_poll<T>(f: impl FnOnce(&mut Context<'_>) -> T) -> T {
    let w = counting_waker();
    let mut cx = Context::from_waker(&w);
    f(&mut cx)
}

// ---------------------------------------------------------------------------------------
// local -> mux : one poll of `poll_write_us` from `Transferring(0)`
// ---------------------------------------------------------------------------------------
/// `script` is concrete per harness (a symbolic script makes every chunk length, and with it
/// every memcpy into the frame, symbolic); credit, the closed flag, the data bytes and the
/// flush result stay symbolic.
fn write_direction(script: [Fill; NSCRIPT]) {
    let finish: bool = kani::any();
    let credit: u32 = kani::any();
    kani::assume(credit <= 2);
    let (s, mut e) = mk_stream(credit, 2, 2, 0, finish);
    let mut local = Local::any();
    local.script = script;
    let data = local.data;
    let mut b = core::mem::ManuallyDrop::new(CopyBidirectional::new(s, local));
    // the OTHER direction is in an arbitrary state (one step from every state: the order in which
    // the two directions end must not matter)
    let other_amt: usize = kani::any();
    kani::assume(other_amt <= 4);
    let other_sel: u8 = kani::any();
    b.read_state = match other_sel {
        0 => ReadState::Transferring(other_amt),
        1 => ReadState::ShuttingDown(other_amt),
        _ => ReadState::Done(other_amt),
    };
    kani::cover!(other_sel >= 2, "?the mux -> local direction had already ended");
    let clones0 = waker_clones();
    let r = cx_poll(|cx| unsafe { Pin::new_unchecked(&mut *b) }.poll_write_us(cx));
    let consumed = b.other.produced;
    let credit1 = b.us.psh_send_remaining.load(AO::Relaxed);
    // what went on the wire
    let m = pop_out_bytes(&mut e.out_rx);
    let second = pop_out(&mut e.out_rx);
    let mut pushed = 0usize;
    let mut finish_frames = 0usize;
    match &m {
        Some(x) => match classify(&x[..]) {
            Out::Frame { op: OpCode::Push, id } => {
                vassert!(id == FLOW, "P:C13 the bridge sent a Push for another flow");
                pushed = x.len() - 5;
                vassert!(pushed >= 1, "P:C05 the bridge sent an empty Push");
                vassert!(pushed == consumed, "P:C13 bytes put into the Push frame are not exactly the bytes consumed from the local side");
                let mut i = 0;
                while i < pushed {
                    vassert!(x[5 + i] == data[i], "P:C13 bytes relayed to the peer differ from what the local side produced (order / content)");
                    i += 1;
                }
                vassert!(credit >= 1 && credit1 == credit - 1, "P:C13 a frame was sent without consuming exactly one unit of credit");
                match second {
                    Out::Nothing => {}
                    Out::Frame { op: OpCode::Finish, id } => {
                        vassert!(id == FLOW, "P:C13 Finish for another flow");
                        finish_frames = 1;
                    }
                    _ => vfail!("P:C13 one poll of the write direction sent more than one data frame"),
                }
            }
            Out::Frame { op: OpCode::Finish, id } => {
                vassert!(id == FLOW && consumed == 0, "P:C13 Finish sent but consumed data was not relayed");
                vassert!(second == Out::Nothing, "P:C13 frames after Finish");
                vassert!(credit1 == credit, "P:C13 Finish consumed credit");
                finish_frames = 1;
            }
            _ => vfail!("P:C13 the bridge sent an unexpected frame"),
        },
        None => {
            vassert!(consumed == 0, "P:C13 bytes consumed from the local side were not relayed to the peer");
            vassert!(credit1 == credit, "P:C13 credit consumed without sending a frame");
        }
    }
    core::mem::forget(m);
    // first script entry decides the shape of the poll
    let first = script[0];
    match &r {
        Poll::Ready(Ok(n)) => {
            // only reached through end-of-stream of the local side
            vassert!(*n == consumed, "P:C13 the write direction reports a byte count other than what it relayed");
            vassert!(matches!(b.write_state, WriteState::Done(_)), "P:C13 write direction finished without reaching Done");
            if !finish {
                vassert!(finish_frames == 1, "P:C13 local end-of-stream was not propagated to the peer as Finish");
            }
            kani::cover!(true, "?write direction finished (local EOF)");
        }
        Poll::Ready(Err(_)) => {
            vassert!(b.other.read_err_returned || finish || (first == Fill::Pending && b.other.fres == Step::Err), "P:C13 the write direction failed although nothing failed");
            kani::cover!(b.other.read_err_returned && consumed > 0, "?read error after data");
            kani::cover!(true, "?write direction failed");
        }
        Poll::Pending => {
            vassert!(!b.other.read_err_returned, "P:C13 a read error of the local side left the bridge pending instead of completing with the error");
            // no orphan Pending: some callee returned Pending holding our waker
            let credit_wait = credit == 0 && !finish && consumed == 0 && waker_clones() > clones0;
            vassert!(b.other.fill_parked || b.other.write_parked || credit_wait, "P:C13 the bridge is pending but nobody holds its waker");
            vassert!(finish_frames == 0, "P:C13 Finish sent although the local side has not ended");
            kani::cover!(true, "?write direction pending");
        }
    }
    kani::cover!(pushed == 2, "?two bytes relayed");
    kani::cover!(pushed >= 3, "?chunks coalesced into one frame");
    kani::cover!(true, "write direction evaluated");
    core::mem::forget(e);
}

// ---------------------------------------------------------------------------------------
// mux -> local : one poll of `poll_read_us` from `Transferring(0)`
// ---------------------------------------------------------------------------------------
fn read_direction(q: usize) {
    let (s, mut e) = mk_stream(1, 2, 2, 0, false);
    let f1: [u8; 2] = kani::any();
    let f2: [u8; 1] = kani::any();
    if q >= 1 {
        e.inbound_tx.as_ref().unwrap().try_send(Bytes::copy_from_slice(&f1)).unwrap();
    }
    if q >= 2 {
        e.inbound_tx.as_ref().unwrap().try_send(Bytes::copy_from_slice(&f2)).unwrap();
    }
    let sender_gone: bool = kani::any();
    if sender_gone {
        core::mem::drop(e.inbound_tx.take());
    }
    let src = [f1[0], f1[1], f2[0]];
    let avail = if q == 0 { 0 } else if q == 1 { 2 } else { 3 };
    let local = Local::any();
    let mut b = core::mem::ManuallyDrop::new(CopyBidirectional::new(s, local));
    // the OTHER direction is in an arbitrary state: in particular the local side may have ended
    // first (Finish already sent) - the peer's end-of-stream must still be propagated (seed C13c)
    let other_amt: usize = kani::any();
    kani::assume(other_amt <= 4);
    let other_done: bool = kani::any();
    b.write_state = if other_done { WriteState::Done(other_amt) } else { WriteState::Transferring(other_amt) };
    kani::cover!(other_done, "?the local -> mux direction had already ended");
    let r = cx_poll(|cx| unsafe { Pin::new_unchecked(&mut *b) }.poll_read_us(cx));
    let written = b.other.out_len;
    vassert!(written <= avail, "P:C13 more bytes written to the local side than the peer sent");
    let mut i = 0;
    while i < written {
        vassert!(b.other.out[i] == src[i], "P:C13 bytes written to the local side are not a prefix of what the peer sent (order / content)");
        i += 1;
    }
    match &r {
        Poll::Ready(Ok(n)) => {
            vassert!(*n == written && written == avail, "P:C13 read direction finished before relaying everything the peer sent");
            vassert!(sender_gone, "P:C13 read direction finished although the peer has not finished");
            vassert!(b.other.shutdowns >= 1 && b.other.sres == Step::Ok, "P:C13 peer end-of-stream was not propagated to the local side as a shutdown");
            vassert!(matches!(b.read_state, ReadState::Done(_)), "P:C13 read direction finished without reaching Done");
            kani::cover!(true, "?read direction finished");
        }
        Poll::Ready(Err(_)) => {
            vassert!((b.other.wres == Step::Err && written < avail) || (b.other.sres == Step::Err && b.other.shutdowns >= 1), "P:C13 the read direction failed although nothing failed");
            kani::cover!(true, "?read direction failed");
        }
        Poll::Pending => {
            let waiting_for_peer = written == avail && !sender_gone;
            vassert!(b.other.write_parked || waiting_for_peer, "P:C13 the bridge is pending but nobody holds its waker");
            vassert!(!(b.other.wres == Step::Err && written < avail), "P:C13 a write error of the local side left the bridge pending");
            kani::cover!(true, "?read direction pending");
        }
    }
    kani::cover!(written == 3, "?three bytes relayed");
    kani::cover!(true, "read direction evaluated");
    core::mem::forget(e);
}

// ---------------------------------------------------------------------------------------
// both directions through the public future: completion and error propagation
// ---------------------------------------------------------------------------------------
fn whole_poll() {
    let (s, mut e) = mk_stream(1, 2, 2, 0, false);
    let f1: [u8; 1] = kani::any();
    e.inbound_tx.as_ref().unwrap().try_send(Bytes::copy_from_slice(&f1)).unwrap();
    core::mem::drop(e.inbound_tx.take());
    let mut local = Local::any();
    local.script = [any_fill(), Fill::Eof, Fill::Eof];
    let mut b = core::mem::ManuallyDrop::new(s.into_copy_bidirectional_with_buf(local));
    let r = cx_poll(|cx| unsafe { Pin::new_unchecked(&mut *b) }.poll(cx));
    match &r {
        Poll::Ready(Ok((rd, wr))) => {
            vassert!(*rd == b.other.out_len && *wr == b.other.produced, "P:C13 the bridge reports byte counts other than what it relayed");
            vassert!(matches!(b.read_state, ReadState::Done(_)) && matches!(b.write_state, WriteState::Done(_)), "P:C13 the bridge completed before both directions ended");
            kani::cover!(true, "?bridge completed");
        }
        Poll::Ready(Err(_)) => {
            vassert!(b.other.wres == Step::Err || b.other.sres == Step::Err || b.other.fres == Step::Err || b.other.read_err_returned, "P:C13 the bridge failed although nothing failed");
            kani::cover!(true, "?bridge failed");
        }
        Poll::Pending => {
            vassert!(b.other.fill_parked || b.other.write_parked, "P:C13 the bridge is pending but nobody holds its waker");
            vassert!(!b.other.read_err_returned, "P:C13 a read error left the bridge pending");
        }
    }
    kani::cover!(true, "whole poll evaluated");
    core::mem::forget(e);
}

macro_rules! h {
    ($name:ident, $unwind:literal, $body:expr) => {
        #[kani::proof]
        #[kani::unwind($unwind)]
        fn $name() {
            $body
        }
    };
}
use Fill::{Data1 as D1, Data2 as D2, Eof as E, Err as X, Pending as P};
h!(c13_write_dir_p, 8, write_direction([P, E, E]));
h!(c13_write_dir_e, 8, write_direction([E, E, E]));
h!(c13_write_dir_x, 8, write_direction([X, E, E]));
h!(c13_write_dir_dp, 8, write_direction([D2, P, E]));
h!(c13_write_dir_de, 8, write_direction([D1, E, E]));
h!(c13_write_dir_dx, 8, write_direction([D2, X, E]));
h!(c13_write_dir_ddp, 8, write_direction([D1, D2, P]));
h!(c13_write_dir_dde, 8, write_direction([D2, D1, E]));
h!(c13_write_dir_ddx, 8, write_direction([D1, D1, X]));
h!(c13_write_dir_ddd, 8, write_direction([D2, D1, D1]));
h!(c13_read_dir_q0, 8, read_direction(0));
h!(c13_read_dir_q1, 8, read_direction(1));
h!(c13_read_dir_q2, 8, read_direction(2));
h!(c13_whole_poll, 8, whole_poll());

