//! In-crate harnesses over `MuxStream` (mounted as a child module of `stream.rs`):
//! C02 (W: writes, R: reads), C03 (credit / acknowledgement accounting), C05 (end of
//! stream), C12 (writer vs. acknowledge/close race at scheduling points).
#![allow(unused, clippy::all, clippy::pedantic, clippy::nursery, missing_docs)]
extern crate std;
use super::*;
use crate::frame::OpCode;
use crate::verif_common::*;
use crate::{vassert, vfail};
use crate::{EstablishedStreamData, FlowSlot};
use alloc::vec::Vec;
use core::pin::Pin;
use core::sync::atomic::Ordering as AO;
use core::task::{Context, Poll};
use std::io;
use tokio::io::{AsyncBufRead, AsyncRead, AsyncWrite, ReadBuf};

fn cx_poll<T>(f: impl FnOnce(&mut Context<'_>) -> T) -> T {
    let w = counting_waker();
    let mut cx = Context::from_waker(&w);
    f(&mut cx)
}
fn is_broken_pipe<T>(r: &io::Result<T>) -> bool {
    match r {
        Err(e) => e.kind() == io::ErrorKind::BrokenPipe,
        Ok(_) => false,
    }
}
/// Next outbound message must be `Push{FLOW, payload}`; returns false if nothing is queued.
fn expect_push(out_rx: &mut mpsc::UnboundedReceiver<Message>, payload: &[u8]) -> bool {
    match out_rx.try_recv() {
        Ok(Message::Binary(b)) => {
            vassert!(classify(&b[..]) == Out::Frame { op: OpCode::Push, id: FLOW }, "P:C02 a write did not produce a Push frame for its own flow");
            vassert!(bytes_eq(&b[5..], payload), "P:C02 the Push payload is not exactly the bytes accepted by the write");
            true
        }
        Ok(_) => vfail!("P:C02 a write queued something that is not a frame"),
        Err(_) => false,
    }
}

// ---------------------------------------------------------------------------------------
// W: one write from an arbitrary state
// ---------------------------------------------------------------------------------------
fn w_plain<const L: usize>() {
    let credit: u32 = kani::any();
    let finish: bool = kani::any();
    let (mut s, mut e) = mk_stream(credit, 2, 2, 0, finish);
    let buf: [u8; L] = kani::any();
    let clones0 = waker_clones();
    let r = cx_poll(|cx| Pin::new(&mut s).poll_write(cx, &buf));
    let credit1 = s.psh_send_remaining.load(AO::Relaxed);
    match &r {
        Poll::Ready(Ok(n)) => {
            vassert!(*n == L, "P:C02 write reported a length other than the bytes it took");
            // (a zero-length write transmits nothing and may succeed on a closed stream)
            vassert!(L == 0 || !finish, "P:C05 a write succeeded after the stream was shut down / closed");
            if L > 0 {
                vassert!(credit > 0 && credit1 == credit - 1, "P:C03 a Push was sent without consuming exactly one unit of credit");
                vassert!(expect_push(&mut e.out_rx, &buf), "P:C02 a successful write queued no frame");
            } else {
                // a zero-length write: nothing at all, or an (empty) Push paid for with credit
                let sent = expect_push(&mut e.out_rx, &buf);
                vassert!((sent && credit > 0 && credit1 == credit - 1) || (!sent && credit1 == credit), "P:C03 credit and frames out of step on an empty write");
            }
            vassert!(pop_out(&mut e.out_rx) == Out::Nothing, "P:C02 one write queued more than one frame");
            kani::cover!(true, "?write accepted");
        }
        Poll::Ready(Err(x)) => {
            vassert!(finish, "P:C05 a write failed although the stream is open and has credit");
            vassert!(x.kind() == io::ErrorKind::BrokenPipe, "P:C05 write on a closed stream failed with something other than BrokenPipe");
            vassert!(credit1 == credit && pop_out(&mut e.out_rx) == Out::Nothing, "P:C05 a failed write still transmitted / consumed credit");
            kani::cover!(true, "?write refused (BrokenPipe)");
        }
        Poll::Pending => {
            vassert!(!finish && credit == 0, "P:C04 write is pending although credit is available or the stream is closed");
            vassert!(credit1 == 0 && pop_out(&mut e.out_rx) == Out::Nothing, "P:C03 a pending write transmitted / changed credit");
            vassert!(waker_clones() > clones0, "P:C12 a pending write did not register its waker");
            kani::cover!(true, "?write pending on credit");
        }
    }
    kani::cover!(true, "write evaluated");
    core::mem::forget(r);
    core::mem::forget(s);
    core::mem::forget(e);
}
/// One write far larger than anything else in these harnesses (1 MiB + 1 octet, constant
/// contents), with exactly one unit of credit: still ONE frame carrying all of it, or nothing at
/// all - a write that is split internally must not leave part of itself queued when it returns
/// Pending (seed C02c: chunks queued before the credit ran out were sent again on the retry).
static BIG: [u8; (1 << 20) + 1] = [0x5a; (1 << 20) + 1];
fn w_plain_big() {
    let credit: u32 = kani::any();
    kani::assume(credit <= 1);
    let (mut s, mut e) = mk_stream(credit, 2, 2, 0, false);
    let r = cx_poll(|cx| Pin::new(&mut s).poll_write(cx, &BIG[..]));
    let credit1 = s.psh_send_remaining.raw().load(AO::Relaxed);
    let m = pop_out_bytes(&mut e.out_rx);
    match &r {
        Poll::Ready(Ok(n)) => {
            vassert!(credit == 1 && credit1 == 0, "P:C03 a Push was sent without consuming exactly one unit of credit");
            vassert!(*n >= 1 && *n <= BIG.len(), "P:C02 write reported a length it cannot have taken");
            match &m {
                Some(b) => {
                    vassert!(b.len() == 5 + *n, "P:C02 the frame queued by a large write does not carry exactly the bytes the write reported");
                    vassert!(b[5] == 0x5a && b[b.len() - 1] == 0x5a, "P:C02 payload of a large write modified");
                }
                None => vfail!("P:C02 a successful write queued no frame"),
            }
            vassert!(pop_out(&mut e.out_rx) == Out::Nothing, "P:C02 one write queued more than one frame");
            kani::cover!(true, "?large write accepted");
        }
        Poll::Ready(Err(_)) => vfail!("P:C05 a write failed although the stream is open"),
        Poll::Pending => {
            vassert!(credit == 0, "P:C04 write is pending although credit is available");
            vassert!(credit1 == 0 && m.is_none(), "P:C02 a write that returned Pending left part of itself queued (it will be sent again when the write is retried)");
            kani::cover!(true, "?large write pending on credit");
        }
    }
    kani::cover!(true, "large write evaluated");
    core::mem::forget(m);
    core::mem::forget(r);
    core::mem::forget(s);
    core::mem::forget(e);
}
fn w_vectored<const A: usize, const B: usize>(parts: usize) {
    let credit: u32 = kani::any();
    let finish: bool = kani::any();
    let (mut s, mut e) = mk_stream(credit, 2, 2, 0, finish);
    let a: [u8; A] = kani::any();
    let b: [u8; B] = kani::any();
    let mut cat = [0u8; 8];
    let mut n = 0;
    if parts >= 1 {
        let mut i = 0;
        while i < A {
            cat[n] = a[i];
            n += 1;
            i += 1;
        }
    }
    if parts >= 2 {
        let mut i = 0;
        while i < B {
            cat[n] = b[i];
            n += 1;
            i += 1;
        }
    }
    let slices = [io::IoSlice::new(&a), io::IoSlice::new(&b)];
    let r = cx_poll(|cx| Pin::new(&mut s).poll_write_vectored(cx, &slices[..parts]));
    let credit1 = s.psh_send_remaining.load(AO::Relaxed);
    match &r {
        Poll::Ready(Ok(m)) => {
            vassert!(*m == n, "P:C02 vectored write reported a length other than the total of its slices");
            vassert!(n == 0 || !finish, "P:C05 a vectored write succeeded after the stream was shut down / closed");
            let sent = expect_push(&mut e.out_rx, &cat[..n]);
            if n > 0 {
                vassert!(sent && credit > 0 && credit1 == credit - 1, "P:C03 vectored write: frame and credit out of step");
            } else {
                vassert!((sent && credit > 0 && credit1 == credit - 1) || (!sent && credit1 == credit), "P:C03 credit and frames out of step on an empty vectored write");
            }
            vassert!(pop_out(&mut e.out_rx) == Out::Nothing, "P:C02 one vectored write queued more than one frame");
            kani::cover!(true, "?write accepted");
        }
        Poll::Ready(Err(_)) => {
            vassert!(finish, "P:C05 a vectored write failed although the stream is open and has credit");
            vassert!(credit1 == credit && pop_out(&mut e.out_rx) == Out::Nothing, "P:C05 a failed vectored write still transmitted / consumed credit");
        }
        Poll::Pending => {
            vassert!(!finish && credit == 0, "P:C04 vectored write is pending although credit is available or the stream is closed");
            vassert!(credit1 == 0 && pop_out(&mut e.out_rx) == Out::Nothing, "P:C03 a pending vectored write transmitted / changed credit");
        }
    }
    kani::cover!(true, "write evaluated");
    core::mem::forget(r);
    core::mem::forget(s);
    core::mem::forget(e);
}

// ---------------------------------------------------------------------------------------
// C05: a zero-length write must not look like end-of-stream at the peer.
// writer stream -> its Push frame -> (what dispatch does) the peer stream's inbound queue ->
// peer read.
// ---------------------------------------------------------------------------------------
fn empty_write_is_not_eof(vectored: bool) {
    let (mut a, mut ea) = mk_stream(2, 2, 2, 0, false);
    let (mut b, mut eb) = mk_stream(2, 2, 2, 0, false);
    let r = if vectored {
        let e: [u8; 0] = [];
        let slices = [io::IoSlice::new(&e)];
        cx_poll(|cx| Pin::new(&mut a).poll_write_vectored(cx, &slices[..]))
    } else {
        cx_poll(|cx| Pin::new(&mut a).poll_write(cx, &[]))
    };
    vassert!(matches!(r, Poll::Ready(Ok(0))), "P:C05 a zero-length write on an open stream with credit did not succeed with 0");
    // deliver whatever was transmitted to the peer's inbound queue, as FlowSlot::dispatch does
    match ea.out_rx.try_recv() {
        Ok(Message::Binary(m)) => {
            let payload = m.slice(5..);
            let ok = eb.inbound_tx.as_ref().unwrap().try_send(payload);
            core::mem::forget(ok);
            kani::cover!(true, "?an empty Push frame was transmitted");
        }
        _ => {
            kani::cover!(true, "?nothing was transmitted");
        }
    }
    // the writer then sends real data
    let d: [u8; 1] = kani::any();
    let r2 = cx_poll(|cx| Pin::new(&mut a).poll_write(cx, &d));
    vassert!(matches!(r2, Poll::Ready(Ok(1))), "P:C05 write after an empty write failed");
    if let Ok(Message::Binary(m)) = ea.out_rx.try_recv() {
        let ok = eb.inbound_tx.as_ref().unwrap().try_send(m.slice(5..));
        core::mem::forget(ok);
    }
    // the peer reads: must get the data byte, never end-of-stream (the writer is still open)
    let got = cx_poll(|cx| match Pin::new(&mut b).poll_fill_buf(cx) {
        Poll::Ready(Ok(s)) => Some((s.len(), if s.is_empty() { 0 } else { s[0] })),
        Poll::Ready(Err(_)) => None,
        Poll::Pending => Some((usize::MAX, 0)),
    });
    match got {
        Some((0, _)) => vfail!("P:C05 the peer saw end-of-stream after a zero-length write although the writer is still open"),
        Some((usize::MAX, _)) => vfail!("P:C05 data written after a zero-length write is not readable at the peer"),
        Some((l, x)) => vassert!(l == 1 && x == d[0], "P:C05 data written after a zero-length write arrives corrupted"),
        None => vfail!("P:C05 read failed"),
    }
    kani::cover!(true, "exchange evaluated");
    core::mem::forget((r, r2));
    core::mem::forget((a, b, ea, eb));
}

// ---------------------------------------------------------------------------------------
// R: reads from an arbitrary state: remainder of the current frame + queued frames
// ---------------------------------------------------------------------------------------
/// `rem` bytes left of the current frame, then `q` queued frames (lengths 1 and 2), then the
/// sender is either still there or gone.  One `poll_read` into a buffer of `cap` bytes.
fn r_read<const REM: usize>(q: usize, cap: usize) {
    r_read_x::<REM>(q, cap, false)
}
/// `uninit`: the caller's buffer is a `ReadBuf::uninit` (nothing initialised yet), as
/// `read_buf` / `read_to_end` pass it.
fn r_read_x<const REM: usize>(q: usize, cap: usize, uninit: bool) {
    let threshold: u32 = kani::any();
    let since: u32 = kani::any();
    kani::assume(threshold >= 1 && since < threshold);
    let (mut s, mut e) = mk_stream(1, 2, threshold, since, false);
    let rem: [u8; REM] = kani::any();
    s.buf = Bytes::copy_from_slice(&rem);
    let f1: [u8; 1] = kani::any();
    let f2: [u8; 2] = kani::any();
    if q >= 1 {
        e.inbound_tx.as_ref().unwrap().try_send(Bytes::copy_from_slice(&f1)).unwrap();
    }
    if q >= 2 {
        e.inbound_tx.as_ref().unwrap().try_send(Bytes::copy_from_slice(&f2)).unwrap();
    }
    let sender_gone: bool = kani::any();
    if sender_gone {
        core::mem::drop(e.inbound_tx.take());
    }
    let mut out_init = [0u8; 4];
    let mut out_uninit = [core::mem::MaybeUninit::<u8>::uninit(); 4];
    let mut rb = if uninit { ReadBuf::uninit(&mut out_uninit[..cap]) } else { ReadBuf::new(&mut out_init[..cap]) };
    let r = cx_poll(|cx| Pin::new(&mut s).poll_read(cx, &mut rb));
    let n = rb.filled().len();
    let mut out = [0u8; 4];
    {
        let fl = rb.filled();
        let mut i = 0;
        while i < n && i < 4 {
            out[i] = fl[i];
            i += 1;
        }
    }
    // expected source of the bytes
    let (src, srclen): ([u8; 2], usize) = if REM > 0 {
        let mut t = [0u8; 2];
        let mut i = 0;
        while i < REM {
            t[i] = rem[i];
            i += 1;
        }
        (t, REM)
    } else if q >= 1 {
        ([f1[0], 0], 1)
    } else {
        ([0, 0], 0)
    };
    match r {
        Poll::Ready(Ok(())) => {
            if srclen == 0 {
                vassert!(sender_gone, "P:C05 read returned end-of-stream although the peer has not finished and nothing was queued");
                vassert!(n == 0, "P:C02 read produced bytes out of nothing");
                kani::cover!(true, "?end of stream reported");
            } else {
                let want = if srclen < cap { srclen } else { cap };
                vassert!(n == want, "P:C02 read returned fewer/more bytes than available from the current frame");
                let mut i = 0;
                while i < n {
                    vassert!(out[i] == src[i], "P:C02 read returned bytes that are not the next bytes of the stream");
                    i += 1;
                }
                // what is left stays in order: the rest of the current frame, then the queue
                vassert!(s.buf.len() == srclen - n, "P:C02 read lost or duplicated the rest of the current frame");
                let mut i = 0;
                while i < srclen - n {
                    vassert!(s.buf[i] == src[n + i], "P:C02 remainder of the current frame corrupted");
                    i += 1;
                }
                let consumed_frames = if REM == 0 { 1 } else { 0 };
                vassert!(s.rx_frame_rx.len() == q - consumed_frames, "P:C02 read popped a frame while the previous one was not used up (or lost one)");
                kani::cover!(true, "?data returned");
            }
        }
        Poll::Ready(Err(_)) => vfail!("P:C02 read failed"),
        Poll::Pending => {
            vassert!(srclen == 0 && !sender_gone, "P:C04 read is pending although data or end-of-stream is available");
            kani::cover!(true, "?read pending");
        }
    }
    kani::cover!(true, "read evaluated");
    core::mem::forget(s);
    core::mem::forget(e);
}

// ---------------------------------------------------------------------------------------
// C03: acknowledgement accounting on the consuming side; credit return on the sending side
// ---------------------------------------------------------------------------------------
/// One frame is consumed from an arbitrary (since < threshold) state.
fn ack_accounting() {
    let threshold: u32 = kani::any();
    let since: u32 = kani::any();
    kani::assume(threshold >= 1 && since < threshold);
    let (mut s, mut e) = mk_stream(1, 2, threshold, since, false);
    let f: [u8; 1] = kani::any();
    e.inbound_tx.as_ref().unwrap().try_send(Bytes::copy_from_slice(&f)).unwrap();
    let r = cx_poll(|cx| s.poll_for_push(cx));
    vassert!(matches!(r, Poll::Ready(1)), "P:C02 consuming a queued frame failed");
    match e.out_rx.try_recv() {
        Ok(Message::Binary(b)) => {
            vassert!(classify(&b[..]) == Out::Frame { op: OpCode::Acknowledge, id: FLOW }, "P:C03 consuming a frame emitted something other than an Acknowledge of its flow");
            let n = be32(&b[..], 5);
            vassert!(n == since + 1, "P:C03 Acknowledge does not carry exactly the frames consumed since the last one");
            vassert!(since + 1 >= threshold, "P:C03 Acknowledge sent before the threshold");
            vassert!(s.psh_recvd_since == 0, "P:C03 counter not reset after an Acknowledge (frames would be acknowledged twice)");
            kani::cover!(true, "?acknowledge emitted");
        }
        Ok(_) => vfail!("P:C03 consuming a frame emitted a non-frame message"),
        Err(_) => {
            vassert!(since + 1 < threshold, "P:C04 no Acknowledge although the threshold was reached");
            vassert!(s.psh_recvd_since == since + 1, "P:C03 consumed frame not counted");
            kani::cover!(true, "?below threshold");
        }
    }
    vassert!(pop_out(&mut e.out_rx) == Out::Nothing, "P:C03 more than one Acknowledge for one consumed frame");
    kani::cover!(true, "accounting evaluated");
    core::mem::forget(s);
    core::mem::forget(e);
}
/// One 2-byte frame taken in pieces through the public read API (fill_buf, consume(1), fill_buf,
/// consume(1), fill_buf): however many calls it takes, exactly ONE frame is counted -
/// acknowledged frames + the running counter = frames received.
fn ack_accounting_partial_reads() {
    let threshold: u32 = kani::any();
    let since: u32 = kani::any();
    kani::assume(threshold >= 1 && since < threshold);
    let (mut s, mut e) = mk_stream(1, 2, threshold, since, false);
    let f: [u8; 2] = kani::any();
    e.inbound_tx.as_ref().unwrap().try_send(Bytes::copy_from_slice(&f)).unwrap();
    let n1 = cx_poll(|cx| match Pin::new(&mut s).poll_fill_buf(cx) {
        Poll::Ready(Ok(b)) => b.len(),
        _ => 99,
    });
    vassert!(n1 == 2, "P:C02 the queued frame was not offered whole");
    Pin::new(&mut s).consume(1);
    let n2 = cx_poll(|cx| match Pin::new(&mut s).poll_fill_buf(cx) {
        Poll::Ready(Ok(b)) => {
            if b.len() == 1 && b[0] == f[1] {
                1
            } else {
                98
            }
        }
        _ => 99,
    });
    vassert!(n2 == 1, "P:C02 the unread tail of a partially consumed frame was not offered again");
    Pin::new(&mut s).consume(1);
    let pending = cx_poll(|cx| Pin::new(&mut s).poll_fill_buf(cx).is_pending());
    vassert!(pending, "P:C05 a drained stream whose peer has not finished is not pending");
    // acknowledged + counted = since + 1, with at most one Acknowledge, sent only at the threshold
    let mut acked: u64 = 0;
    let mut acks = 0;
    let mut k = 0;
    while k < 3 {
        match e.out_rx.try_recv() {
            Ok(Message::Binary(b)) => {
                vassert!(classify(&b[..]) == Out::Frame { op: OpCode::Acknowledge, id: FLOW }, "P:C03 reading emitted something other than an Acknowledge of its flow");
                acked += be32(&b[..], 5) as u64;
                acks += 1;
            }
            Ok(_) => vfail!("P:C03 reading emitted a non-frame message"),
            Err(_) => {}
        }
        k += 1;
    }
    vassert!(acked + s.psh_recvd_since as u64 == since as u64 + 1, "P:C03 frames acknowledged plus frames counted differ from frames received (a frame acknowledged twice or not at all)");
    vassert!(acks <= 1, "P:C03 more than one Acknowledge for one received frame");
    if acks == 1 {
        vassert!(since + 1 >= threshold, "P:C03 Acknowledge sent before the threshold");
    } else {
        vassert!(since + 1 < threshold, "P:C04 no Acknowledge although the threshold was reached");
    }
    kani::cover!(acks == 1, "?acknowledge emitted");
    kani::cover!(acks == 0, "?below threshold");
    kani::cover!(true, "accounting evaluated");
    core::mem::forget(s);
    core::mem::forget(e);
}
/// An EMPTY Push (older peers send them) carries no data but used up a unit of the peer's credit:
/// the reader keeps waiting for data, counts the frame, and acknowledges when that frame is the one
/// that reaches the threshold (seed C04c: counted, but the Acknowledge was left to the next data
/// frame - which a sender without credit can never send).
fn ack_accounting_empty_push() {
    let threshold: u32 = kani::any();
    let since: u32 = kani::any();
    kani::assume(threshold >= 1 && since < threshold);
    let (mut s, mut e) = mk_stream(1, 2, threshold, since, false);
    e.inbound_tx.as_ref().unwrap().try_send(Bytes::new()).unwrap();
    let r = cx_poll(|cx| s.poll_for_push(cx));
    vassert!(r.is_pending(), "P:C05 an empty Push was reported as data or as end-of-stream");
    match e.out_rx.try_recv() {
        Ok(Message::Binary(b)) => {
            vassert!(classify(&b[..]) == Out::Frame { op: OpCode::Acknowledge, id: FLOW }, "P:C03 consuming a frame emitted something other than an Acknowledge of its flow");
            vassert!(be32(&b[..], 5) == since + 1, "P:C03 Acknowledge does not carry exactly the frames consumed since the last one");
            vassert!(since + 1 >= threshold, "P:C03 Acknowledge sent before the threshold");
            vassert!(s.psh_recvd_since == 0, "P:C03 counter not reset after an Acknowledge (frames would be acknowledged twice)");
            kani::cover!(true, "?acknowledge emitted for an empty Push");
        }
        Ok(_) => vfail!("P:C03 consuming a frame emitted a non-frame message"),
        Err(_) => {
            vassert!(since + 1 < threshold, "P:C04 no Acknowledge although the threshold was reached (by an empty Push): the sender's credit is never replenished");
            vassert!(s.psh_recvd_since == since + 1, "P:C03 consumed frame not counted");
            kani::cover!(true, "?below threshold");
        }
    }
    vassert!(pop_out(&mut e.out_rx) == Out::Nothing, "P:C03 more than one Acknowledge for one consumed frame");
    kani::cover!(true, "accounting evaluated");
    core::mem::forget(s);
    core::mem::forget(e);
}
/// A 3-byte frame taken through fill_buf / consume(k), k = 1 or 2: the next fill_buf offers exactly
/// the unread tail (seed C02d: a consume of more than half kept the already delivered head).
fn bufread_partial_consume() {
    let (mut s, mut e) = mk_stream(1, 2, 2, 0, false);
    let f: [u8; 3] = kani::any();
    e.inbound_tx.as_ref().unwrap().try_send(Bytes::copy_from_slice(&f)).unwrap();
    let n1 = cx_poll(|cx| match Pin::new(&mut s).poll_fill_buf(cx) {
        Poll::Ready(Ok(b)) => b.len(),
        _ => 99,
    });
    vassert!(n1 == 3, "P:C02 the queued frame was not offered whole");
    let k: usize = kani::any();
    kani::assume(k == 1 || k == 2);
    Pin::new(&mut s).consume(k);
    let ok = cx_poll(|cx| match Pin::new(&mut s).poll_fill_buf(cx) {
        Poll::Ready(Ok(b)) => b.len() == 3 - k && b[0] == f[k] && b[b.len() - 1] == f[2],
        _ => false,
    });
    vassert!(ok, "P:C02 after a partial consume the next bytes offered are not the unread tail of the frame (bytes lost / delivered twice)");
    kani::cover!(k == 2, "?more than half of the frame consumed");
    kani::cover!(true, "partial consume evaluated");
    core::mem::forget(s);
    core::mem::forget(e);
}
/// The order inside the waking operation: when the blocked writer's waker fires, the reason for
/// the wake-up (credit / closed flag) must already be visible - a writer re-polled at that very
/// moment (another thread) would otherwise find nothing, register again and sleep for ever.
fn wake_after_effect(close: bool) {
    let (mut s, mut e) = mk_stream(0, 2, 2, 0, false);
    let d: [u8; 1] = kani::any();
    let w0 = cx_poll(|cx| Pin::new(&mut s).poll_write(cx, &d));
    vassert!(w0.is_pending(), "P:C03 a write without credit did not block");
    core::mem::forget(w0);
    unsafe {
        WAKE_OBS_CREDIT = alloc::sync::Arc::as_ptr(&s.psh_send_remaining);
        WAKE_OBS_CLOSED = alloc::sync::Arc::as_ptr(&s.finish_sent);
    }
    let before = wakes();
    if close {
        e.data.disallow_write();
    } else {
        let n: u32 = kani::any();
        kani::assume(n >= 1);
        e.data.acknowledge(n);
    }
    vassert!(wakes() > before, "P:C12 lost wake-up - the blocked writer was not woken");
    let (seen_credit, seen_closed) = unsafe { (WAKE_SEEN_CREDIT, WAKE_SEEN_CLOSED) };
    if close {
        vassert!(seen_closed, "P:C12 the writer is woken before the closed flag is visible: re-polled at that moment it sleeps for ever");
    } else {
        vassert!(seen_credit >= 1, "P:C12 the writer is woken before the returned credit is visible: re-polled at that moment it finds none, registers again and sleeps although credit arrives");
    }
    unsafe {
        WAKE_OBS_CREDIT = core::ptr::null();
        WAKE_OBS_CLOSED = core::ptr::null();
    }
    kani::cover!(true, "wake order evaluated");
    core::mem::forget(s);
    core::mem::forget(e);
}
fn credit_return() {
    let credit: u32 = kani::any();
    let n: u32 = kani::any();
    kani::assume(credit as u64 + n as u64 <= u32::MAX as u64);
    let (mut s, mut e) = mk_stream(credit, 2, 2, 0, false);
    e.data.acknowledge(n);
    vassert!(s.psh_send_remaining.load(AO::Relaxed) == credit + n, "P:C03 Acknowledge(n) did not add exactly n to the send credit");
    vassert!(!s.finish_sent.load(AO::Relaxed), "P:C03 Acknowledge closed the stream");
    kani::cover!(true, "credit returned");
    core::mem::forget(s);
    core::mem::forget(e);
}

// ---------------------------------------------------------------------------------------
// C05: shutdown sends Finish exactly once and blocks later writes
// ---------------------------------------------------------------------------------------
fn shutdown_once() {
    let credit: u32 = kani::any();
    let (mut s, mut e) = mk_stream(credit, 2, 2, 0, false);
    let r1 = cx_poll(|cx| Pin::new(&mut s).poll_shutdown(cx));
    vassert!(matches!(r1, Poll::Ready(Ok(()))), "P:C05 shutdown did not complete");
    vassert!(pop_out(&mut e.out_rx) == Out::Frame { op: OpCode::Finish, id: FLOW }, "P:C05 shutdown did not send Finish for its flow");
    let r2 = cx_poll(|cx| Pin::new(&mut s).poll_shutdown(cx));
    vassert!(matches!(r2, Poll::Ready(Ok(()))), "P:C05 second shutdown did not complete");
    vassert!(pop_out(&mut e.out_rx) == Out::Nothing, "P:C05 Finish sent twice");
    let d: [u8; 1] = kani::any();
    let w = cx_poll(|cx| Pin::new(&mut s).poll_write(cx, &d));
    match &w {
        Poll::Ready(Err(x)) => vassert!(x.kind() == io::ErrorKind::BrokenPipe, "P:C05 write after shutdown failed with something other than BrokenPipe"),
        _ => vfail!("P:C05 write after shutdown did not fail"),
    }
    vassert!(pop_out(&mut e.out_rx) == Out::Nothing, "P:C05 data transmitted after shutdown");
    vassert!(s.psh_send_remaining.load(AO::Relaxed) == credit, "P:C03 shutdown / refused write changed the credit");
    // half-close: the read side is untouched
    let f: [u8; 1] = kani::any();
    e.inbound_tx.as_ref().unwrap().try_send(Bytes::copy_from_slice(&f)).unwrap();
    let got = cx_poll(|cx| match Pin::new(&mut s).poll_fill_buf(cx) {
        Poll::Ready(Ok(b)) => b.len() == 1 && b[0] == f[0],
        _ => false,
    });
    vassert!(got, "P:C05 reading after a local shutdown does not work (half-close broken)");
    kani::cover!(true, "shutdown evaluated");
    core::mem::forget((r1, r2, w));
    core::mem::forget(s);
    core::mem::forget(e);
}

// ---------------------------------------------------------------------------------------
// C12: writer poll vs. acknowledge / close injected at a scheduling point
// ---------------------------------------------------------------------------------------
/// The other party's whole operation (acknowledge(n) or disallow_write()) runs either before
/// the writer's poll, at one of the places where the writer logs (solver-chosen index), or
/// after it.  Afterwards the writer must not be asleep while it could proceed or fail.
fn writer_race(kind: u8, when: usize) {
    let n: u32 = kani::any();
    kani::assume(n >= 1);
    let (mut s, mut e) = mk_stream(0, 2, 2, 0, false);
    *SCHED_TARGET.lock().unwrap() = Some(SchedTarget { data: &e.data as *const _, kind, n, task: core::ptr::null(), task_fn: None, stream: core::ptr::null_mut(), writer_fn: None });
    SCHED_FIRE_AT.store(usize::MAX, AO::Relaxed);
    let wakes0 = wakes();
    if when == 0 {
        sched_action();
    } else if when <= 5 {
        SCHED_FIRE_AT.store(when - 1, AO::Relaxed);
    }
    tracing::sched::set_hook(verif_sched_point);
    tracing::sched::arm();
    let r = cx_poll(|cx| s.poll_obtain_write_permission(cx));
    tracing::sched::disarm();
    let points = tracing::sched::points();
    let fired_inside = SCHED_FIRED.load(AO::Relaxed) == 1;
    if !(when == 0 || fired_inside) {
        // the chosen point does not exist on this path (or `when == 6`): the other party runs
        // after the poll has returned
        sched_action();
    }
    kani::cover!(fired_inside, "?the other party ran at a scheduling point inside the writer's poll");
    kani::cover!(points >= 2, "?the writer's poll passes at least two scheduling points (log sites)");
    let credit = s.psh_send_remaining.load(AO::Relaxed);
    match r {
        Poll::Ready(Some(())) => {
            vassert!(kind == 0, "P:C12 the writer obtained credit although none was ever granted");
            vassert!(credit == n - 1, "P:C12 credit after the race is not grants minus frames sent");
        }
        Poll::Ready(None) => {
            vassert!(kind == 1, "P:C12 the writer saw a closed stream although it was never closed");
        }
        Poll::Pending => {
            if kind == 0 {
                vassert!(credit == n, "P:C12 credit after the race is not grants minus frames sent");
            }
            // credit has arrived / the stream is closed by now: the writer must have been woken
            vassert!(wakes() > wakes0, "P:C12 lost wake-up - the writer sleeps although credit arrived or the stream was closed");
        }
    }
    kani::cover!(true, "race evaluated");
    *SCHED_TARGET.lock().unwrap() = None;
    core::mem::forget(s);
    core::mem::forget(e);
}

// ---------------------------------------------------------------------------------------
// C12 at the granularity of individual atomic operations (instrumented atomics, common.rs)
// ---------------------------------------------------------------------------------------
fn writer_poll_action(s: *mut MuxStream) -> u8 {
    // SAFETY: the harness keeps the stream alive and does not touch it while the action runs
    let s = unsafe { &mut *s };
    match cx_poll(|cx| s.poll_obtain_write_permission(cx)) {
        Poll::Pending => 0,
        Poll::Ready(Some(())) => 1,
        Poll::Ready(None) => 2,
    }
}

/// The other party's whole operation (acknowledge(n) / disallow_write()) runs immediately before
/// the `k`-th ATOMIC operation of the writer's poll (finer than the log sites of `writer_race`).
fn writer_race_atomic(kind: u8, k: usize) {
    let n: u32 = kani::any();
    kani::assume(n >= 1);
    let c0: u32 = kani::any();
    kani::assume(c0 <= 1);
    // conforming peer: it cannot return more credit than the 32-bit counter holds
    kani::assume(n <= u32::MAX - c0);
    let (mut s, mut e) = mk_stream(c0, 2, 2, 0, false);
    *SCHED_TARGET.lock().unwrap() = Some(SchedTarget { data: &e.data as *const _, kind, n, task: core::ptr::null(), task_fn: None, stream: core::ptr::null_mut(), writer_fn: None });
    let wakes0 = wakes();
    atom_arm(k);
    let r = cx_poll(|cx| s.poll_obtain_write_permission(cx));
    atom_disarm();
    let fired = ATOM_FIRED.load(AO::Relaxed) == 1;
    if !fired {
        sched_action();
    }
    kani::cover!(fired, "?the other party ran between two atomic operations of the writer's poll");
    let credit = s.psh_send_remaining.raw().load(AO::Relaxed);
    match r {
        Poll::Ready(Some(())) => {
            vassert!(kind == 0 || c0 >= 1, "P:C12 the writer obtained credit although none was available");
            let granted = if kind == 0 { n } else { 0 };
            vassert!(credit == c0.wrapping_add(granted).wrapping_sub(1), "P:C12 credit after the race is not grants minus frames sent");
        }
        Poll::Ready(None) => {
            vassert!(kind == 1, "P:C12 the writer saw a closed stream although it was never closed");
        }
        Poll::Pending => {
            vassert!(c0 == 0, "P:C12 the writer sleeps although credit was available");
            if kind == 0 {
                vassert!(credit == n, "P:C12 credit after the race is not grants minus frames sent");
            }
            vassert!(wakes() > wakes0, "P:C12 lost wake-up - the writer sleeps although credit arrived or the stream was closed");
        }
    }
    kani::cover!(true, "atomic race evaluated");
    *SCHED_TARGET.lock().unwrap() = None;
    core::mem::forget(s);
    core::mem::forget(e);
}

/// The WRITER's whole poll runs immediately before the `k`-th atomic operation of the connection
/// task's acknowledge(n) / disallow_write() (a writer thread that gets in between two atomic
/// operations of the task: a load / store pair instead of one read-modify-write loses the
/// writer's decrement - seeds C12c, C03c).
fn task_race_atomic(kind: u8, k: usize) {
    let n: u32 = kani::any();
    kani::assume(n >= 1 && n <= 4);
    let c0: u32 = kani::any();
    kani::assume(c0 <= 2);
    let (mut s, mut e) = mk_stream(c0, 2, 2, 0, false);
    *SCHED_TARGET.lock().unwrap() = Some(SchedTarget { data: core::ptr::null(), kind: 3, n: 0, task: core::ptr::null(), task_fn: None, stream: &mut s as *mut MuxStream, writer_fn: Some(writer_poll_action) });
    WRITER_RESULT.store(9, AO::Relaxed);
    let wakes0 = wakes();
    atom_arm(k);
    if kind == 0 {
        e.data.acknowledge(n);
    } else {
        e.data.disallow_write();
    }
    atom_disarm();
    let points = ATOM_POINTS.load(AO::Relaxed);
    let fired = ATOM_FIRED.load(AO::Relaxed) == 1;
    if !fired {
        // the task's operation has fewer atomic operations than k: the writer runs afterwards
        sched_action();
    }
    kani::cover!(fired, "?the writer ran between two atomic operations of the task's operation");
    vassert!(points >= 1, "BOUND: the task's operation passed no atomic scheduling point (instrumentation not in place)");
    let wr = WRITER_RESULT.load(AO::Relaxed);
    let credit = s.psh_send_remaining.raw().load(AO::Relaxed);
    let sent = if wr == 1 { 1 } else { 0 };
    if kind == 0 {
        vassert!(wr != 2, "P:C12 the writer saw a closed stream although it was never closed");
        vassert!(credit == c0 + n - sent, "P:C12 credit after the race is not grants minus frames sent (a frame went out without consuming a unit of credit, or credit was lost)");
        if wr == 0 {
            vassert!(c0 == 0, "P:C12 the writer sleeps although credit was available");
            vassert!(wakes() > wakes0, "P:C12 lost wake-up - the writer sleeps although credit arrived");
        }
    } else {
        vassert!(credit == c0 - sent, "P:C12 credit after the race is not grants minus frames sent");
        if wr == 0 {
            vassert!(c0 == 0, "P:C12 the writer sleeps although credit was available");
            vassert!(wakes() > wakes0, "P:C12 lost wake-up - the writer sleeps although the stream was closed");
        }
    }
    kani::cover!(true, "atomic race evaluated");
    *SCHED_TARGET.lock().unwrap() = None;
    core::mem::forget(s);
    core::mem::forget(e);
}

macro_rules! h {
    ($name:ident, $unwind:literal, $body:expr) => {
        #[kani::proof]
        #[kani::unwind($unwind)]
        fn $name() {
            $body
        }
    };
}
h!(c02_w_plain_l0, 8, w_plain::<0>());
h!(c02_w_plain_l1, 8, w_plain::<1>());
h!(c02_w_plain_l3, 8, w_plain::<3>());
h!(c02_w_plain_big, 8, w_plain_big());
h!(c02_w_vec_none, 10, w_vectored::<1, 1>(0));
h!(c02_w_vec_one, 10, w_vectored::<2, 1>(1));
h!(c02_w_vec_1_2, 10, w_vectored::<1, 2>(2));
h!(c02_w_vec_0_2, 10, w_vectored::<0, 2>(2));
h!(c02_w_vec_0_0, 10, w_vectored::<0, 0>(2));
h!(c05_empty_write_plain, 8, empty_write_is_not_eof(false));
h!(c05_empty_write_vectored, 8, empty_write_is_not_eof(true));
h!(c02_r_rem0_q0_cap1, 8, r_read::<0>(0, 1));
h!(c02_r_rem0_q1_cap1, 8, r_read::<0>(1, 1));
h!(c02_r_rem0_q2_cap3, 8, r_read::<0>(2, 3));
h!(c02_r_rem1_q1_cap3, 8, r_read::<1>(1, 3));
h!(c02_r_rem2_q0_cap1, 8, r_read::<2>(0, 1));
h!(c02_r_rem2_q2_cap3, 8, r_read::<2>(2, 3));
h!(c02_r_uninit_rem0_q1_cap3, 8, r_read_x::<0>(1, 3, true));
h!(c02_r_uninit_rem2_q0_cap1, 8, r_read_x::<2>(0, 1, true));
h!(c03_ack_accounting_empty_push, 8, ack_accounting_empty_push());
h!(c02_r_bufread_partial_consume, 8, bufread_partial_consume());
h!(c12_wake_after_credit, 8, wake_after_effect(false));
h!(c12_wake_after_close, 8, wake_after_effect(true));
h!(c03_ack_accounting, 8, ack_accounting());
h!(c03_ack_accounting_partial_reads, 8, ack_accounting_partial_reads());
h!(c03_credit_return, 8, credit_return());
h!(c05_shutdown_once, 8, shutdown_once());
// `when`: 0 = before the writer's poll; k in 1..=5 = at the k-th place where the poll logs
// (if the path has that many); 6 = after the poll returned.
h!(c12_atomic_ack_in_writer_k0, 4, writer_race_atomic(0, 0));
h!(c12_atomic_ack_in_writer_k1, 4, writer_race_atomic(0, 1));
h!(c12_atomic_ack_in_writer_k2, 4, writer_race_atomic(0, 2));
h!(c12_atomic_ack_in_writer_k3, 4, writer_race_atomic(0, 3));
h!(c12_atomic_ack_in_writer_k4, 4, writer_race_atomic(0, 4));
h!(c12_atomic_close_in_writer_k0, 4, writer_race_atomic(1, 0));
h!(c12_atomic_close_in_writer_k1, 4, writer_race_atomic(1, 1));
h!(c12_atomic_close_in_writer_k2, 4, writer_race_atomic(1, 2));
h!(c12_atomic_close_in_writer_k3, 4, writer_race_atomic(1, 3));
h!(c12_atomic_close_in_writer_k4, 4, writer_race_atomic(1, 4));
h!(c12_atomic_writer_in_ack_k0, 4, task_race_atomic(0, 0));
h!(c12_atomic_writer_in_ack_k1, 4, task_race_atomic(0, 1));
h!(c12_atomic_writer_in_ack_k2, 4, task_race_atomic(0, 2));
h!(c12_atomic_writer_in_close_k0, 4, task_race_atomic(1, 0));
h!(c12_atomic_writer_in_close_k1, 4, task_race_atomic(1, 1));
h!(c12_atomic_writer_in_close_k2, 4, task_race_atomic(1, 2));
h!(c12_race_ack_w0, 4, writer_race(0, 0));
h!(c12_race_ack_w1, 4, writer_race(0, 1));
h!(c12_race_ack_w2, 4, writer_race(0, 2));
h!(c12_race_ack_w3, 4, writer_race(0, 3));
h!(c12_race_ack_w4, 4, writer_race(0, 4));
h!(c12_race_ack_w5, 4, writer_race(0, 5));
h!(c12_race_ack_w6, 4, writer_race(0, 6));
h!(c12_race_close_w0, 4, writer_race(1, 0));
h!(c12_race_close_w1, 4, writer_race(1, 1));
h!(c12_race_close_w2, 4, writer_race(1, 2));
h!(c12_race_close_w3, 4, writer_race(1, 3));
h!(c12_race_close_w4, 4, writer_race(1, 4));
h!(c12_race_close_w5, 4, writer_race(1, 5));
h!(c12_race_close_w6, 4, writer_race(1, 6));
