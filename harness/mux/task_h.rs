//! In-crate harnesses that need the private items of `task.rs` (`process_frame`,
//! `close_flow`, `new_stream_shared`, ...).  Mounted as a child module of `task.rs` in the
//! scratch copy, under cfg(kani) only.
#![allow(unused, clippy::all, clippy::pedantic, clippy::nursery, missing_docs)]
extern crate std;
use super::*;
// explicit imports of what the harnesses use, so that a change of `task.rs`'s own `use` lines
// does not break the build of the harness module
use crate::frame::{Frame, Payload};
use crate::ws::{Message, WebSocket};
use crate::{BindRequest, Datagram, Error, EstablishedStreamData, FlowSlot, Multiplexor, MuxStream};
use bytes::Bytes;
use core::future::Future;
use core::task::{Context, Poll};
use tokio::sync::mpsc;
use crate::frame::{BindType, OpCode};
use crate::verif_common::*;
use crate::{vassert, vfail};
use crate::config::Options;
use alloc::vec::Vec;
use core::sync::atomic::Ordering;
use tokio::sync::oneshot;

// Flow ids used by the harnesses.  `VERIF_SEED` rotates them (they are don't-care constants).
const fn seed() -> u32 {
    let s = match option_env!("VERIF_SEED") {
        Some(s) => s.as_bytes(),
        None => b"0",
    };
    let mut v: u32 = 0;
    let mut i = 0;
    while i < s.len() {
        if s[i] >= b'0' && s[i] <= b'9' {
            v = v.wrapping_mul(10).wrapping_add((s[i] - b'0') as u32);
        }
        i += 1;
    }
    v
}
pub const ID_A: u32 = 5 + (seed() % 7) * 0x0101_0001;
pub const ID_B: u32 = 0x8000_0009 ^ ((seed() % 5) << 8);
pub const ID_C: u32 = 0x0000_1234 + (seed() % 3);

// ---------------------------------------------------------------------------------------
// Pre-state builders
// ---------------------------------------------------------------------------------------
/// Install an Established slot under `id` and return the application's end.
pub fn install_established(ep: &Endpoint, id: u32, peer_rwnd: u32) -> MuxStream {
    let (stream, data) = ep.task.new_stream_shared(id, peer_rwnd, Bytes::new(), 0);
    let old = ep.task.flows.write().insert(id, FlowSlot::Established(data));
    core::mem::forget(old);
    stream
}
pub fn install_requested(ep: &Endpoint, id: u32) -> oneshot::Receiver<Option<MuxStream>> {
    let (tx, rx) = oneshot::channel();
    let old = ep.task.flows.write().insert(id, FlowSlot::Requested(tx));
    core::mem::forget(old);
    rx
}
pub fn install_bind_requested(ep: &Endpoint, id: u32) -> oneshot::Receiver<bool> {
    let (tx, rx) = oneshot::channel();
    let old = ep.task.flows.write().insert(id, FlowSlot::BindRequested(tx));
    core::mem::forget(old);
    rx
}
/// Queue one inbound frame of `len` symbolic bytes on an established flow (through the real
/// dispatch path).
pub fn queue_inbound(ep: &Endpoint, id: u32, data: &[u8]) -> bool {
    let g = ep.task.flows.read();
    let r = match g.get(&id) {
        Some(slot) => matches!(slot.dispatch(Bytes::copy_from_slice(data)), Some(Ok(()))),
        None => false,
    };
    r
}
/// Everything the connection task and the application can observe about one flow.
#[derive(Clone, Copy, PartialEq, Eq, Debug)]
pub struct Snap {
    pub present: bool,
    pub kind: u8, // 0 requested, 1 established, 2 bind-requested
    pub credit: u32,
    pub finish_sent: bool,
    pub read_open: bool,
    pub queued: usize,
}
pub fn snap(ep: &Endpoint, id: u32, stream: Option<&MuxStream>) -> Snap {
    snap_t(&ep.task, id, stream)
}
pub fn snap_t(task: &TTask, id: u32, stream: Option<&MuxStream>) -> Snap {
    let g = task.flows.read();
    let mut s = Snap { present: false, kind: 9, credit: 0, finish_sent: false, read_open: false, queued: 0 };
    match g.get(&id) {
        None => {}
        Some(FlowSlot::Requested(_)) => {
            s.present = true;
            s.kind = 0;
        }
        Some(FlowSlot::BindRequested(_)) => {
            s.present = true;
            s.kind = 2;
        }
        Some(FlowSlot::Established(d)) => {
            s.present = true;
            s.kind = 1;
            s.credit = d.psh_send_remaining.load(Ordering::Relaxed);
            s.finish_sent = d.finish_sent.load(Ordering::Relaxed);
            s.read_open = d.sender.is_some();
        }
    }
    if let Some(st) = stream {
        s.queued = st.rx_frame_rx.len();
    }
    s
}
/// A bystander flow in an arbitrary (bounded) state: symbolic credit and closed flags, one
/// queued frame with symbolic contents.
pub struct Bystander {
    pub stream: MuxStream,
    pub before: Snap,
    pub byte: u8,
}
pub fn install_bystander(ep: &Endpoint) -> Bystander {
    let stream = install_established(ep, ID_B, kani::any());
    let byte: u8 = kani::any();
    let ok = queue_inbound(ep, ID_B, &[byte]);
    assert!(ok);
    if kani::any() {
        stream.finish_sent.store(true, Ordering::Relaxed);
    }
    if kani::any() {
        let mut g = ep.task.flows.write();
        if let Some(FlowSlot::Established(d)) = g.get_mut(&ID_B) {
            core::mem::forget(d.disallow_read());
        }
    }
    let before = snap(ep, ID_B, Some(&stream));
    Bystander { stream, before, byte }
}
pub fn check_bystander(ep: &Endpoint, by: &mut Bystander) {
    let after = snap(ep, ID_B, Some(&by.stream));
    vassert!(after == by.before, "P:C10 a frame addressed to another flow changed the state of a bystander stream");
    match by.stream.rx_frame_rx.try_recv() {
        Ok(b) => vassert!(b.len() == 1 && b[0] == by.byte, "P:C10 a frame addressed to another flow changed the data queued on a bystander stream"),
        Err(_) => vfail!("P:C10 a frame addressed to another flow removed data queued on a bystander stream"),
    }
}
fn forget_ep(ep: Endpoint) {
    core::mem::forget(ep);
}

// ---------------------------------------------------------------------------------------
// C10: reaction table.  One step of `process_frame` from every slot state of the addressed
// flow, with a bystander in an arbitrary state.
// ---------------------------------------------------------------------------------------
#[derive(Clone, Copy, PartialEq, Eq)]
pub enum Slot {
    Absent,
    Requested,
    BindRequested,
    /// established, inbound queue has room (rwnd 2, one frame queued)
    EstRoom,
    /// established, inbound queue full
    EstFull,
    /// established, peer already sent Finish
    EstReadClosed,
}
#[derive(Clone, Copy, PartialEq, Eq)]
pub enum Fk {
    Connect,
    Ack,
    Reset,
    Finish,
    Push,
    Bind,
    Datagram,
}
pub enum Handle {
    None,
    Req(oneshot::Receiver<Option<MuxStream>>),
    Bind(oneshot::Receiver<bool>),
    Est(MuxStream),
}
pub fn install(ep: &Endpoint, id: u32, slot: Slot) -> Handle {
    match slot {
        Slot::Absent => Handle::None,
        Slot::Requested => Handle::Req(install_requested(ep, id)),
        Slot::BindRequested => Handle::Bind(install_bind_requested(ep, id)),
        Slot::EstRoom | Slot::EstFull | Slot::EstReadClosed => {
            let st = install_established(ep, id, kani::any());
            let ok = queue_inbound(ep, id, &[kani::any()]);
            assert!(ok);
            if slot == Slot::EstFull {
                let ok = queue_inbound(ep, id, &[kani::any()]);
                assert!(ok);
            }
            if slot == Slot::EstReadClosed {
                let mut g = ep.task.flows.write();
                if let Some(FlowSlot::Established(d)) = g.get_mut(&id) {
                    core::mem::forget(d.disallow_read());
                }
            }
            if kani::any() {
                st.finish_sent.store(true, Ordering::Relaxed);
            }
            Handle::Est(st)
        }
    }
}
/// Frame of the given kind addressed to `id`, every other field symbolic.
pub fn any_frame(fk: Fk, id: u32, host: &'static [u8; 1], data: &'static [u8; 2]) -> Frame<'static> {
    match fk {
        Fk::Connect => Frame::new_connect(&host[..], kani::any(), id, kani::any()),
        Fk::Ack => Frame::new_acknowledge(id, kani::any()),
        Fk::Reset => Frame::new_reset(id),
        Fk::Finish => Frame::new_finish(id),
        Fk::Push => Frame::new_push_owned(id, Bytes::from_static(&data[..])),
        Fk::Bind => Frame::new_bind(id, if kani::any() { BindType::Stream } else { BindType::Datagram }, &host[..], kani::any()),
        Fk::Datagram => Frame::new_datagram_owned(id, Bytes::from_static(&host[..]), kani::any(), Bytes::from_static(&data[..])),
    }
}
fn leak1(v: [u8; 1]) -> &'static [u8; 1] {
    alloc::boxed::Box::leak(alloc::boxed::Box::new(v))
}
fn leak2(v: [u8; 2]) -> &'static [u8; 2] {
    alloc::boxed::Box::leak(alloc::boxed::Box::new(v))
}

/// One frame of kind `fk` for flow `id` (`zero_id`: the frame uses flow id 0 instead) arrives
/// while the addressed slot is in state `slot`; `bind_on`: this endpoint accepts binds.
pub fn react(slot: Slot, fk: Fk, bind_on: bool, zero_id: bool) {
    react_x(slot, fk, bind_on, zero_id, false)
}
/// `direct`: for Connect only - call `con_recv_new_stream` with the frame's fields instead of
/// going through `process_frame`.  (`process_frame(Connect)` awaits a nested coroutine whose
/// state the symbolic execution does not fold: 600k steps / 17 GB; that path is kept in the
/// thorough tier, this one runs in the quick tier.)
pub fn react_x(slot: Slot, fk: Fk, bind_on: bool, zero_id: bool, direct: bool) {
    let opts = if bind_on { small_options().bind_buffer_size(2) } else { small_options() };
    let mut ep = endpoint(opts, KRng::fixed([1, 2, 3, 4]));
    let id = if zero_id { 0 } else { ID_A };
    let mut by = install_bystander(&ep);
    let handle = install(&ep, id, slot);
    let before = snap(&ep, id, match &handle { Handle::Est(s) => Some(s), _ => None });
    let frame = any_frame(fk, id, leak1(kani::any()), leak2(kani::any()));
    let peer_val: u32 = match &frame.payload {
        Payload::Acknowledge(n) => *n,
        Payload::Connect(c) => c.rwnd,
        _ => 0,
    };
    // setup noise must not count as output
    assert!(pop_out(&mut ep.tx_msg_rx) == Out::Nothing);
    let r = if direct {
        match frame.payload {
            Payload::Connect(ConnectPayload { rwnd, target_host, target_port }) => {
                now_or_never(ep.task.con_recv_new_stream(id, target_host.into_static(), target_port, rwnd))
            }
            _ => panic!("harness: direct mode is for Connect only"),
        }
    } else {
        now_or_never(ep.task.process_frame(frame, false))
    };
    match &r {
        Some(Ok(())) => {}
        Some(Err(_)) => vfail!("P:C10 a well-formed frame made process_frame fail (connection would be torn down)"),
        None => vfail!("P:C10 process_frame blocked on a well-formed frame"),
    }
    core::mem::forget(r);
    let o1 = pop_out(&mut ep.tx_msg_rx);
    let o2 = pop_out(&mut ep.tx_msg_rx);
    let after = snap(&ep, id, match &handle { Handle::Est(s) => Some(s), _ => None });
    let rst = Out::Frame { op: OpCode::Reset, id };
    // -- generic rules ----------------------------------------------------------------
    vassert!(o2 == Out::Nothing, "P:C10 more than one reply to a single frame");
    if let Out::Frame { id: oid, .. } = o1 {
        vassert!(oid == id, "P:C10 reply addressed to a flow other than the offending one");
    }
    vassert!(o1 != Out::Undecodable, "P:C10 reply is not a decodable frame");
    if fk == Fk::Reset {
        vassert!(o1 == Out::Nothing, "P:C10 a Reset was answered (never reply to a Reset)");
    }
    // -- the table ------------------------------------------------------------------------
    match (fk, slot) {
        (Fk::Connect, Slot::Absent) if !zero_id => {
            vassert!(o1 == Out::Frame { op: OpCode::Acknowledge, id }, "P:C10 Connect on a free id was not acknowledged");
            vassert!(after.present && after.kind == 1 && after.credit == peer_val, "P:C10 accepted Connect did not establish the flow with the peer's window as credit");
        }
        (Fk::Connect, _) => {
            vassert!(o1 == rst, "P:C10 Connect with id 0 or an id in use was not answered with Reset");
            vassert!(after == before, "P:C10 rejected Connect disturbed the existing flow");
        }
        (Fk::Ack, Slot::Absent) | (Fk::Ack, Slot::BindRequested) => {
            vassert!(o1 == rst, "P:C10 Acknowledge on an unknown flow / pending bind was not answered with Reset");
            vassert!(after == before, "P:C10 bogus Acknowledge changed the slot");
        }
        (Fk::Ack, Slot::Requested) => {
            vassert!(o1 == Out::Nothing, "P:C10 Acknowledge of our Connect was answered");
            vassert!(after.present && after.kind == 1 && after.credit == peer_val, "P:C10 Acknowledge of our Connect did not establish the flow with the peer's window as credit");
        }
        (Fk::Ack, _) => {
            vassert!(o1 == Out::Nothing, "P:C10 Acknowledge on an established flow was answered");
            vassert!(after.credit == before.credit.wrapping_add(peer_val) && after.finish_sent == before.finish_sent && after.read_open == before.read_open && after.queued == before.queued,
                "P:C10 Acknowledge did not add exactly its count to the send credit");
        }
        (Fk::Reset, _) => {
            vassert!(!after.present, "P:C10 Reset did not release the flow");
            if let Handle::Est(st) = &handle {
                vassert!(st.finish_sent.load(Ordering::Relaxed), "P:C05 after the peer's Reset the application's stream still accepts writes");
            }
        }
        (Fk::Finish, Slot::Absent) => {
            vassert!(o1 == rst, "P:C10 Finish on an unknown flow was not answered with Reset");
        }
        (Fk::Finish, Slot::Requested) => {
            vassert!(o1 == rst && !after.present, "P:C10 Finish in reply to Connect must reset and release the flow");
        }
        (Fk::Finish, Slot::BindRequested) => {
            vassert!(o1 == Out::Nothing && !after.present, "P:C10 Finish on a pending bind must release it without a reply");
        }
        (Fk::Finish, _) => {
            vassert!(o1 == Out::Nothing, "P:C10 Finish on an established flow was answered");
            vassert!(after.present && !after.read_open && after.credit == before.credit && after.finish_sent == before.finish_sent && after.queued == before.queued,
                "P:C10 Finish must close only the inbound direction");
        }
        (Fk::Push, Slot::EstRoom) => {
            vassert!(o1 == Out::Nothing && after.queued == before.queued + 1 && after.credit == before.credit && after.present, "P:C10 Push within the window was not queued on its flow");
        }
        (Fk::Push, Slot::EstFull) => {
            // window overrun: only the offending flow is reset (no Reset if we already finished)
            vassert!(!after.present, "P:C10 window overrun did not close the offending flow");
            vassert!(o1 == rst || (before.finish_sent && o1 == Out::Nothing), "P:C10 window overrun was not answered with a Reset of the offending flow");
        }
        (Fk::Push, _) => {
            // absent, requested, bind-requested, or after the peer's own Finish
            vassert!(o1 == rst, "P:C10 Push on a flow that cannot take data was not answered with Reset");
            vassert!(after == before, "P:C10 bogus Push changed the slot");
        }
        (Fk::Bind, _) => {
            if bind_on {
                vassert!(o1 == Out::Nothing, "P:C10 Bind request was answered by the connection task although binds are enabled");
            } else {
                vassert!(o1 == rst, "P:C10 Bind request was not rejected with Reset although binds are disabled");
            }
            vassert!(after == before, "P:C10 Bind request changed a stream slot");
        }
        (Fk::Datagram, _) => {
            vassert!(o1 == Out::Nothing, "P:C10 Datagram was answered");
            vassert!(after == before, "P:C10 Datagram changed a stream slot");
        }
    }
    check_bystander(&ep, &mut by);
    kani::cover!(true, "reaction evaluated");
    core::mem::forget(handle);
    core::mem::forget(by);
    forget_ep(ep);
}

macro_rules! h {
    ($name:ident, $unwind:literal, $body:expr) => {
        #[kani::proof]
        #[kani::unwind($unwind)]
        fn $name() {
            $body
        }
    };
}
h!(c10_conrecv_absent, 8, react_x(Slot::Absent, Fk::Connect, false, false, true));
h!(c10_conrecv_zero, 8, react_x(Slot::Absent, Fk::Connect, false, true, true));
h!(c10_conrecv_requested, 8, react_x(Slot::Requested, Fk::Connect, false, false, true));
h!(c10_conrecv_bindreq, 8, react_x(Slot::BindRequested, Fk::Connect, false, false, true));
h!(c10_conrecv_est, 8, react_x(Slot::EstRoom, Fk::Connect, false, false, true));
h!(c10_connect_absent, 8, react(Slot::Absent, Fk::Connect, false, false));
h!(c10_connect_zero, 8, react(Slot::Absent, Fk::Connect, false, true));
h!(c10_connect_requested, 8, react(Slot::Requested, Fk::Connect, false, false));
h!(c10_connect_est, 8, react(Slot::EstRoom, Fk::Connect, false, false));
h!(c10_ack_absent, 8, react(Slot::Absent, Fk::Ack, false, false));
h!(c10_ack_requested, 8, react(Slot::Requested, Fk::Ack, false, false));
h!(c10_ack_bindreq, 8, react(Slot::BindRequested, Fk::Ack, false, false));
h!(c10_ack_est, 8, react(Slot::EstRoom, Fk::Ack, false, false));
h!(c10_ack_est_readclosed, 8, react(Slot::EstReadClosed, Fk::Ack, false, false));
h!(c10_reset_absent, 8, react(Slot::Absent, Fk::Reset, false, false));
h!(c10_reset_requested, 8, react(Slot::Requested, Fk::Reset, false, false));
h!(c10_reset_bindreq, 8, react(Slot::BindRequested, Fk::Reset, false, false));
h!(c10_reset_est, 8, react(Slot::EstRoom, Fk::Reset, false, false));
h!(c10_reset_est_full, 8, react(Slot::EstFull, Fk::Reset, false, false));
h!(c10_finish_absent, 8, react(Slot::Absent, Fk::Finish, false, false));
h!(c10_finish_requested, 8, react(Slot::Requested, Fk::Finish, false, false));
h!(c10_finish_bindreq, 8, react(Slot::BindRequested, Fk::Finish, false, false));
h!(c10_finish_est, 8, react(Slot::EstRoom, Fk::Finish, false, false));
h!(c10_finish_est_readclosed, 8, react(Slot::EstReadClosed, Fk::Finish, false, false));
h!(c10_push_absent, 8, react(Slot::Absent, Fk::Push, false, false));
h!(c10_push_zero, 8, react(Slot::Absent, Fk::Push, false, true));
h!(c10_push_requested, 8, react(Slot::Requested, Fk::Push, false, false));
h!(c10_push_bindreq, 8, react(Slot::BindRequested, Fk::Push, false, false));
h!(c10_push_est_room, 8, react(Slot::EstRoom, Fk::Push, false, false));
h!(c10_push_est_full, 8, react(Slot::EstFull, Fk::Push, false, false));
h!(c10_push_est_readclosed, 8, react(Slot::EstReadClosed, Fk::Push, false, false));
h!(c10_bind_disabled_absent, 8, react(Slot::Absent, Fk::Bind, false, false));
h!(c10_bind_disabled_est, 8, react(Slot::EstRoom, Fk::Bind, false, false));
h!(c10_bind_enabled_absent, 8, react(Slot::Absent, Fk::Bind, true, false));
h!(c10_bind_enabled_zero, 8, react(Slot::Absent, Fk::Bind, true, true));
h!(c10_datagram_absent, 8, react(Slot::Absent, Fk::Datagram, false, false));
h!(c10_datagram_est, 8, react(Slot::EstRoom, Fk::Datagram, false, false));
h!(c10_datagram_zero, 8, react(Slot::Absent, Fk::Datagram, false, true));


// =======================================================================================
// C02-D: a Push is appended to its own flow's FIFO, intact and after what was already queued
// =======================================================================================
fn d_push_order() {
    let mut ep = endpoint(small_options(), KRng::fixed([1, 2, 3, 4]));
    let mut by = install_bystander(&ep);
    let mut st = install_established(&ep, ID_A, kani::any());
    let first: [u8; 1] = kani::any();
    vassert!(queue_inbound(&ep, ID_A, &first), "P:C02 dispatch into an empty queue failed");
    let p = leak2(kani::any());
    let r = now_or_never(ep.task.process_frame(Frame::new_push_owned(ID_A, Bytes::from_static(&p[..])), false));
    vassert!(matches!(r, Some(Ok(()))), "P:C10 Push within the window made process_frame fail or block");
    core::mem::forget(r);
    vassert!(pop_out(&mut ep.tx_msg_rx) == Out::Nothing, "P:C03 a Push within the window was answered");
    match st.rx_frame_rx.try_recv() {
        Ok(b) => vassert!(b.len() == 1 && b[0] == first[0], "P:C02 earlier data was reordered or corrupted by a later Push"),
        Err(_) => vfail!("P:C02 earlier data disappeared"),
    }
    match st.rx_frame_rx.try_recv() {
        Ok(b) => vassert!(b.len() == 2 && b[0] == p[0] && b[1] == p[1], "P:C02 the Push payload was not delivered intact to its flow"),
        Err(_) => vfail!("P:C02 the Push payload was not queued on its flow"),
    }
    vassert!(st.rx_frame_rx.try_recv().is_err(), "P:C02 a Push was delivered more than once");
    check_bystander(&ep, &mut by);
    kani::cover!(true, "dispatch evaluated");
    core::mem::forget((st, by));
    forget_ep(ep);
}
h!(c02_d_push_order, 8, d_push_order());

// =======================================================================================
// C02-S: the sender task moves exactly the head of the outbound FIFO into the sink
// =======================================================================================
/// Driven through `process_message_to_send_task` (the future `Task::start` selects on), not
/// through its private helper: one poll, then the future is cancelled the way the select
/// cancels it when another branch (e.g. the dropped-handle signal) finishes first.  Whatever
/// was queued must then be either in the sink, in order, or still in the queue.
fn s_sink_step(ready: Step) {
    let mut ep = endpoint(small_options(), KRng::fixed([1, 2, 3, 4]));
    let a = leak2(kani::any());
    let b = leak2(kani::any());
    ep.task.tx_msg_tx.send(Message::Binary(Bytes::from_static(&a[..]))).ok();
    ep.task.tx_msg_tx.send(Message::Binary(Bytes::from_static(&b[..]))).ok();
    ep.task.ws.lock().ready = ready;
    let r = {
        let fut = ep.task.process_message_to_send_task(&mut ep.tx_msg_rx);
        let mut fut = core::mem::ManuallyDrop::new(fut);
        poll_once(unsafe { Pin::new_unchecked(&mut *fut) })
        // cancelled here (its locals, a dequeued message included, are gone with it)
    };
    let sent = ep.task.ws.lock().sent_len;
    let queued = ep.tx_msg_rx.len();
    if ready != Step::Err {
        // (with a failed sink nothing can be transmitted any more: not required)
        vassert!(sent + queued == 2, "P:C08 a queued frame is neither in the sink nor in the queue after the sender step was cancelled (lost on a local drop)");
    }
    match (&r, ready) {
        (Poll::Pending, Step::Ok) => {
            vassert!(sent == 2 && queued == 0, "P:C02 the sender did not move the queued messages into a ready sink");
            let g = ep.task.ws.lock();
            match (&g.sent[0], &g.sent[1]) {
                (Some(Message::Binary(x)), Some(Message::Binary(y))) => {
                    vassert!(x.len() == 2 && x[0] == a[0] && x[1] == a[1] && y.len() == 2 && y[0] == b[0] && y[1] == b[1], "P:C02 the sender reordered or modified the outbound queue");
                }
                _ => vfail!("P:C02 the sender sent something that was not queued"),
            }
            drop(g);
        }
        (Poll::Pending, Step::Pending) => {
            vassert!(sent == 0 && queued == 2, "P:C02 a message was taken from the queue although the sink was not ready");
            vassert!(ep.task.ws.lock().sink_waker_parked, "P:C08 sender step is pending without the sink holding its waker");
        }
        (Poll::Ready(Err(_)), Step::Err) => {
            vassert!(sent == 0, "P:C02 a message was sent into a failed sink");
        }
        _ => vfail!("P:C02 sender step result does not match the sink's readiness"),
    }
    kani::cover!(true, "sender step evaluated");
    core::mem::forget(r);
    forget_ep(ep);
}
h!(c02_s_sink_ready, 8, s_sink_step(Step::Ok));
h!(c02_s_sink_pending, 8, s_sink_step(Step::Pending));
h!(c02_s_sink_error, 8, s_sink_step(Step::Err));

// =======================================================================================
// C06: abort is clean, ids are released, nothing leaks into a re-used id
// =======================================================================================
/// The application drops a stream: the connection task learns it through the dropped-flows
/// channel, removes the slot, tells the peer (Reset unless Finish was already sent).
fn f_c06_local_drop() {
    let mut ep = endpoint(small_options(), KRng::fixed([1, 2, 3, 4]));
    let mut by = install_bystander(&ep);
    let st = install_established(&ep, ID_A, kani::any());
    // the peer may already have finished its direction (half-closed)
    if kani::any() {
        let mut g = ep.task.flows.write();
        if let Some(FlowSlot::Established(d)) = g.get_mut(&ID_A) {
            core::mem::forget(d.disallow_read());
        }
    }
    let finished: bool = kani::any();
    if finished {
        vassert!(st.do_shutdown().is_some(), "P:C05 shutdown failed on a live connection");
        vassert!(pop_out(&mut ep.tx_msg_rx) == Out::Frame { op: OpCode::Finish, id: ID_A }, "P:C05 shutdown did not send Finish");
    }
    let n0 = ep.task.flows.read().len();
    drop(st);
    {
        let fut = ep.task.process_dropped_flows_task(&mut ep.dropped_flows_rx);
        let mut fut = core::mem::ManuallyDrop::new(fut);
        let p = unsafe { Pin::new_unchecked(&mut *fut) };
        vassert!(poll_once(p).is_pending(), "P:C08 the dropped-flows loop ended although the multiplexor is alive");
    }
    let o1 = pop_out(&mut ep.tx_msg_rx);
    if finished {
        vassert!(o1 == Out::Nothing, "P:C06 a stream that was shut down cleanly and dropped was reset");
    } else {
        vassert!(o1 == Out::Frame { op: OpCode::Reset, id: ID_A }, "P:C06 dropping a stream that was not shut down did not tell the peer (Reset)");
    }
    vassert!(pop_out(&mut ep.tx_msg_rx) == Out::Nothing, "P:C06 more than one frame on drop");
    vassert!(!ep.task.flows.read().contains_key(&ID_A), "P:C06 flow id not released after the stream was dropped");
    vassert!(ep.task.flows.read().len() == n0 - 1, "P:C06 the endpoint still holds state for a dropped stream");
    check_bystander(&ep, &mut by);
    kani::cover!(true, "drop evaluated");
    core::mem::forget(by);
    forget_ep(ep);
}
use core::pin::Pin;
/// The peer aborts (Reset): our application reads what was delivered, then EOF; writes fail
/// with BrokenPipe; the id is free.
fn f_c06_peer_reset_app_view() {
    use tokio::io::{AsyncBufRead, AsyncWrite};
    let mut ep = endpoint(small_options(), KRng::fixed([1, 2, 3, 4]));
    let mut by = install_bystander(&ep);
    let mut st = install_established(&ep, ID_A, kani::any());
    let d: [u8; 1] = kani::any();
    vassert!(queue_inbound(&ep, ID_A, &d), "P:C02 dispatch failed");
    let n0 = ep.task.flows.read().len();
    let r = now_or_never(ep.task.process_frame(Frame::new_reset(ID_A), false));
    vassert!(matches!(r, Some(Ok(()))), "P:C10 Reset made process_frame fail or block");
    core::mem::forget(r);
    vassert!(pop_out(&mut ep.tx_msg_rx) == Out::Nothing, "P:C10 a Reset was answered");
    vassert!(!ep.task.flows.read().contains_key(&ID_A) && ep.task.flows.read().len() == n0 - 1, "P:C06 flow id not released after the peer's Reset");
    let w = counting_waker();
    let mut cx = Context::from_waker(&w);
    // queued data first ...
    match Pin::new(&mut st).poll_fill_buf(&mut cx) {
        Poll::Ready(Ok(b)) => vassert!(b.len() == 1 && b[0] == d[0], "P:C06 data delivered before the abort is not readable afterwards"),
        _ => vfail!("P:C06 read after the peer's abort failed or blocked"),
    }
    Pin::new(&mut st).consume(1);
    // ... then end-of-stream
    match Pin::new(&mut st).poll_fill_buf(&mut cx) {
        Poll::Ready(Ok(b)) => vassert!(b.is_empty(), "P:C06 no end-of-stream after the peer's abort"),
        _ => vfail!("P:C06 read after the peer's abort blocks instead of reporting end-of-stream"),
    }
    // writes fail
    let x: [u8; 1] = kani::any();
    match Pin::new(&mut st).poll_write(&mut cx, &x) {
        Poll::Ready(Err(e)) => vassert!(e.kind() == std::io::ErrorKind::BrokenPipe, "P:C06 write after the peer's abort failed with something other than BrokenPipe"),
        _ => vfail!("P:C06 write after the peer's abort did not fail"),
    }
    check_bystander(&ep, &mut by);
    kani::cover!(true, "abort evaluated");
    core::mem::forget((st, by));
    forget_ep(ep);
}
/// After a flow was closed (by the peer's Reset or by a local drop), the peer re-opens the same
/// id with new parameters: nothing of the old stream (credit, closed flags, buffered data,
/// counters) is visible in the new one, and dropping the stale handle does not disturb it.
fn f_c06_reuse(closed_by_peer: bool) {
    let mut ep = endpoint(small_options(), KRng::fixed([1, 2, 3, 4]));
    let mut st = install_established(&ep, ID_A, kani::any());
    let d: [u8; 1] = kani::any();
    vassert!(queue_inbound(&ep, ID_A, &d), "P:C02 dispatch failed");
    if kani::any() {
        st.finish_sent.store(true, Ordering::Relaxed);
    }
    st.psh_recvd_since = 1;
    if closed_by_peer {
        ep.task.close_flow(ID_A, true);
    } else {
        ep.task.close_flow(ID_A, false);
    }
    let _ = pop_out(&mut ep.tx_msg_rx);
    vassert!(!ep.task.flows.read().contains_key(&ID_A), "P:C06 flow id not released");
    let rw: u32 = kani::any();
    let r = now_or_never(ep.task.con_recv_new_stream(ID_A, Bytes::new(), kani::any(), rw));
    vassert!(matches!(r, Some(Ok(()))), "P:C06 the released id cannot be re-opened");
    core::mem::forget(r);
    vassert!(pop_out(&mut ep.tx_msg_rx) == Out::Frame { op: OpCode::Acknowledge, id: ID_A }, "P:C06 re-opening a released id was not acknowledged");
    let ns = ep.mux.con_recv_stream_rx.lock().try_recv();
    match &ns {
        Ok(s2) => {
            vassert!(s2.flow_id == ID_A && s2.psh_send_remaining.load(Ordering::Relaxed) == rw, "P:C06 credit of the old stream leaked into the new one");
            vassert!(!s2.finish_sent.load(Ordering::Relaxed), "P:C06 closed flag of the old stream leaked into the new one");
            vassert!(s2.buf.is_empty() && s2.rx_frame_rx.len() == 0 && s2.psh_recvd_since == 0, "P:C06 buffered data / counters of the old stream leaked into the new one");
            let after = snap(&ep, ID_A, Some(s2));
            vassert!(after.present && after.kind == 1 && after.read_open && after.credit == rw && !after.finish_sent, "P:C06 the re-opened flow is not a fresh established flow");
        }
        Err(_) => vfail!("P:C06 the re-opened stream was not delivered to the application"),
    }
    kani::cover!(true, "re-open evaluated");
    core::mem::forget(ns);
    core::mem::forget(st);
    forget_ep(ep);
}
/// The peer aborts a stream (Reset) and opens a new one under the same id while the local
/// application still holds the handle of the old one; then the old handle is dropped.  The
/// stale drop notification must not touch the new stream.
fn f_c06_stale_drop_after_reuse() {
    let mut ep = endpoint(small_options(), KRng::fixed([1, 2, 3, 4]));
    let st_old = install_established(&ep, ID_A, kani::any());
    ep.task.close_flow(ID_A, true); // what a peer Reset does
    vassert!(pop_out(&mut ep.tx_msg_rx) == Out::Nothing, "P:C10 a Reset was answered");
    let rw: u32 = kani::any();
    let r = now_or_never(ep.task.con_recv_new_stream(ID_A, Bytes::new(), kani::any(), rw));
    vassert!(matches!(r, Some(Ok(()))), "P:C06 the released id cannot be re-opened");
    core::mem::forget(r);
    vassert!(pop_out(&mut ep.tx_msg_rx) == Out::Frame { op: OpCode::Acknowledge, id: ID_A }, "P:C06 re-opening a released id was not acknowledged");
    let st_new = match ep.mux.con_recv_stream_rx.lock().try_recv() {
        Ok(s2) => s2,
        Err(_) => vfail!("P:C06 the re-opened stream was not delivered to the application"),
    };
    // the application lets go of the OLD handle only now
    core::mem::drop(st_old);
    {
        let fut = ep.task.process_dropped_flows_task(&mut ep.dropped_flows_rx);
        let mut fut = core::mem::ManuallyDrop::new(fut);
        let p = poll_once(unsafe { Pin::new_unchecked(&mut *fut) });
        vassert!(p.is_pending(), "P:C08 the dropped-handle task ended although the multiplexor is alive");
    }
    let after = snap(&ep, ID_A, Some(&st_new));
    vassert!(after.present && after.kind == 1, "P:C06 dropping the handle of an old, already aborted stream removed the NEW stream that reuses its id");
    vassert!(after.read_open && !after.finish_sent && after.credit == rw, "P:C06 dropping the handle of an old stream changed the state of the new stream that reuses its id");
    vassert!(pop_out(&mut ep.tx_msg_rx) == Out::Nothing, "P:C06 dropping the handle of an old, already aborted stream sent a frame for the new stream");
    kani::cover!(true, "stale drop evaluated");
    core::mem::forget(st_new);
    forget_ep(ep);
}
h!(c06_stale_drop_after_reuse, 8, f_c06_stale_drop_after_reuse());
h!(c06_local_drop, 8, f_c06_local_drop());
h!(c06_peer_reset_app_view, 8, f_c06_peer_reset_app_view());
h!(c06_reuse_after_peer_reset, 8, f_c06_reuse(true));
h!(c06_reuse_after_local_close, 8, f_c06_reuse(false));

// =======================================================================================
// C04: the acknowledgement threshold of every new stream is reachable: 1 <= threshold <= the
// window this side advertised, for every accepted Options pair and every peer window
// =======================================================================================
fn f_c04_threshold(via_ack: bool) {
    let rwnd: u32 = kani::any();
    let thr: u32 = kani::any();
    let peer_rwnd: u32 = kani::any();
    kani::assume(rwnd >= 1 && thr >= 1 && peer_rwnd >= 1);
    let opts = small_options().rwnd(rwnd).default_rwnd_threshold(thr);
    let mut ep = endpoint(opts, KRng::fixed([1, 2, 3, 4]));
    let stream = if via_ack {
        let mut rx = install_requested(&ep, ID_A);
        let r = ep.task.ack_recv_new_stream(ID_A, peer_rwnd);
        vassert!(r.is_ok(), "P:C07 Acknowledge of our Connect failed");
        core::mem::forget(r);
        match rx.try_recv() {
            Ok(Some(s)) => s,
            _ => vfail!("P:C07 Acknowledge of our Connect did not hand the stream to the requester"),
        }
    } else {
        let r = now_or_never(ep.task.con_recv_new_stream(ID_A, Bytes::new(), 1, peer_rwnd));
        vassert!(matches!(r, Some(Ok(()))), "P:C07 Connect was not accepted");
        core::mem::forget(r);
        let got = ep.mux.con_recv_stream_rx.lock().try_recv();
        match got {
            Ok(s) => s,
            Err(_) => vfail!("P:C07 accepted stream not delivered"),
        }
    };
    vassert!(stream.rwnd_threshold >= 1, "P:C04 acknowledgement threshold of 0");
    vassert!(stream.rwnd_threshold <= rwnd, "P:C04 acknowledgement threshold exceeds the window advertised to the peer: the peer runs out of credit before an Acknowledge is due (deadlock)");
    vassert!(stream.psh_send_remaining.load(Ordering::Relaxed) == peer_rwnd, "P:C03 initial send credit is not the window the peer advertised");
    vassert!(stream.rx_frame_rx.len() == 0, "P:C07 new stream has queued data");
    kani::cover!(thr > rwnd, "?threshold option larger than own window");
    kani::cover!(peer_rwnd < thr && peer_rwnd < rwnd, "?peer window smallest");
    kani::cover!(true, "threshold evaluated");
    core::mem::forget(stream);
    forget_ep(ep);
}
h!(c04_threshold_con_recv, 8, f_c04_threshold(false));
h!(c04_threshold_ack_recv, 8, f_c04_threshold(true));

// =======================================================================================
// C07: stream opening
// =======================================================================================
/// Check the Connect frame of one attempt and return the proposed id.
fn check_connect_attempt(rx: &mut mpsc::UnboundedReceiver<Message>, task: &TTask, host: &[u8; 2], port: u16) -> u32 {
    let m = pop_out_bytes(rx);
    let id = match &m {
        Some(b) => {
            vassert!(b[0] == 0x70, "P:C07 a stream request did not emit a Connect frame");
            let id = be32(&b[..], 1);
            vassert!(id != 0, "P:C07 flow id 0 proposed");
            vassert!(id != ID_A, "P:C07 proposed a flow id that is already in use");
            vassert!(be32(&b[..], 5) == 2, "P:C07 Connect does not advertise this endpoint's rwnd");
            vassert!(be16(&b[..], 9) == port, "P:C07 Connect carries the wrong port");
            vassert!(b.len() == 13 && b[11] == host[0] && b[12] == host[1], "P:C07 Connect carries the wrong host bytes");
            id
        }
        None => vfail!("P:C07 stream request is pending without having sent a Connect"),
    };
    core::mem::forget(m);
    vassert!(pop_out(rx) == Out::Nothing, "P:C07 more than one frame per attempt");
    let s = snap_t(task, id, None);
    vassert!(s.present && s.kind == 0, "P:C07 no pending-request slot under the proposed id");
    id
}
/// Requester: `new_stream_channel` with a solver-chosen RNG and one live flow in the table.
/// `answers`: 0 = the peer acknowledges the first attempt; k >= 1 = the peer rejects k
/// attempts in a row (k == max_flow_id_retries).  The peer's answers are applied with the
/// functions `process_frame` dispatches to (`ack_recv_new_stream` / `close_flow(.., true)`;
/// the dispatch itself is decided by C10's ack_requested / reset_requested rows).
fn f_c07_request(rejects: usize) {
    let retries = if rejects == 0 { 2 } else { rejects };
    let opts = small_options().max_flow_id_retries(retries);
    // scripted RNG: 0 and the live id must be skipped (the choice over ALL draw sequences is
    // decided separately by c07_id_alloc; concrete ids keep the table lookups foldable here)
    let mut ep = endpoint(opts, KRng::fixed([0, ID_A, ID_C, ID_C + 1]));
    let live = install_established(&ep, ID_A, 1);
    let host = leak2(kani::any());
    let port: u16 = kani::any();
    let fut = ep.mux.new_stream_channel(&host[..], port);
    let mut fut = core::mem::ManuallyDrop::new(fut);
    vassert!(poll_once(unsafe { Pin::new_unchecked(&mut *fut) }).is_pending(), "P:C07 stream request resolved before the peer answered");
    let id1 = check_connect_attempt(&mut ep.tx_msg_rx, &ep.task, host, port);
    vassert!(id1 == ID_C, "P:C07 id allocation did not skip 0 / the id in use");
    vassert!(ep.task.flows.read().len() == 2, "P:C07 a stream request created more than one slot");
    if rejects == 0 {
        let w: u32 = kani::any();
        let r = ep.task.ack_recv_new_stream(id1, w);
        vassert!(r.is_ok(), "P:C07 Acknowledge of our Connect failed");
        core::mem::forget(r);
        match poll_once(unsafe { Pin::new_unchecked(&mut *fut) }) {
            Poll::Ready(Ok(s)) => {
                vassert!(s.flow_id == id1 && s.psh_send_remaining.load(Ordering::Relaxed) == w, "P:C07 the requester's stream does not carry the acknowledged id / the peer's window as credit");
                let st = snap(&ep, id1, Some(&s));
                vassert!(st.present && st.kind == 1, "P:C07 acknowledged request did not become an established flow");
                core::mem::forget(s);
            }
            _ => vfail!("P:C07 acknowledged stream request did not produce a stream"),
        }
        vassert!(pop_out(&mut ep.tx_msg_rx) == Out::Nothing, "P:C07 acknowledged request sent another frame");
    } else {
        ep.task.close_flow(id1, true);
        let mut last = id1;
        if rejects >= 2 {
            vassert!(poll_once(unsafe { Pin::new_unchecked(&mut *fut) }).is_pending(), "P:C07 rejected requester did not retry");
            let id2 = check_connect_attempt(&mut ep.tx_msg_rx, &ep.task, host, port);
            vassert!(!ep.task.flows.read().contains_key(&id1) || id2 == id1, "P:C06 rejected attempt left its slot behind");
            ep.task.close_flow(id2, true);
            last = id2;
        }
        match poll_once(unsafe { Pin::new_unchecked(&mut *fut) }) {
            Poll::Ready(Err(e)) => {
                vassert!(matches!(e, Error::FlowIdRejected), "P:C07 rejected requester failed with something other than FlowIdRejected");
                core::mem::forget(e);
            }
            _ => vfail!("P:C07 requester did not give up after max_flow_id_retries rejected attempts"),
        }
        vassert!(pop_out(&mut ep.tx_msg_rx) == Out::Nothing, "P:C07 requester sent another Connect after giving up");
        vassert!(!ep.task.flows.read().contains_key(&last) && ep.task.flows.read().len() == 1, "P:C06 rejected request left its slot behind");
    }
    let a = snap(&ep, ID_A, Some(&live));
    vassert!(a.present && a.kind == 1 && a.credit == 1, "P:C07 opening a stream disturbed a live flow");
    kani::cover!(true, "request evaluated");
    core::mem::forget(live);
    forget_ep(ep);
}
/// Flow id allocation over ALL draw sequences of the RNG (up to RNG_DRAWS draws): never 0,
/// never an id in use, exactly one new slot.
fn f_c07_id_alloc() {
    let ep = endpoint(small_options(), KRng::any());
    let live = install_established(&ep, ID_A, 1);
    let (tx, rx) = oneshot::channel();
    let id = ep.mux.insert_new_flow(FlowSlot::Requested(tx));
    vassert!(id != 0, "P:C07 flow id 0 proposed");
    vassert!(id != ID_A, "P:C07 proposed a flow id that is already in use");
    vassert!(ep.task.flows.read().len() == 2 && ep.task.flows.read().contains_key(&id) && ep.task.flows.read().contains_key(&ID_A), "P:C07 allocation did not add exactly one slot");
    kani::cover!(ep.mux.rng.lock().used >= 2, "?a collision / zero draw was skipped");
    kani::cover!(true, "allocation evaluated");
    core::mem::forget((live, rx));
    forget_ep(ep);
}
h!(c07_id_alloc, 8, f_c07_id_alloc());

/// Simultaneous open with a colliding id: while this endpoint allocates an id for its own
/// request, the connection task (another thread in reality) processes the peer's Connect for
/// exactly that id.  The peer's frame is injected at the k-th place where `insert_new_flow`
/// logs - but only if the flow table is not locked at that moment (a real thread would block
/// on the lock).  Afterwards the id this endpoint proposes must not be one the peer's Connect
/// has just established.
fn act_peer_connect(task: *const TTask, id: u32) {
    let t = unsafe { &*task };
    if t.flows.is_locked() {
        return;
    }
    let r = now_or_never(t.con_recv_new_stream(id, Bytes::new(), 1, 5));
    core::mem::forget(r);
}
fn f_c07_alloc_race(when: usize) {
    let mut ep = endpoint(small_options(), KRng::fixed([ID_C, ID_C + 1, 3, 4]));
    *SCHED_TARGET.lock().unwrap() = Some(SchedTarget { data: core::ptr::null(), kind: 2, n: ID_C, task: &ep.task as *const TTask, task_fn: Some(act_peer_connect), stream: core::ptr::null_mut(), writer_fn: None });
    SCHED_FIRE_AT.store(when, Ordering::Relaxed);
    tracing::sched::set_hook(verif_sched_point);
    tracing::sched::arm();
    let (tx, rx) = oneshot::channel();
    let id = ep.mux.insert_new_flow(FlowSlot::Requested(tx));
    tracing::sched::disarm();
    let accepted = ep.mux.con_recv_stream_rx.lock().try_recv();
    match &accepted {
        Ok(s) => {
            vassert!(s.flow_id != id, "P:C07 this endpoint proposed a flow id that the peer's simultaneous Connect had just established (and overwrote that flow)");
            let peer = snap(&ep, s.flow_id, Some(s));
            vassert!(peer.present && peer.kind == 1, "P:C07 a flow accepted from the peer was destroyed by a concurrent local request");
            kani::cover!(true, "?the peer's Connect was processed during the allocation");
        }
        Err(_) => {}
    }
    let mine = snap(&ep, id, None);
    vassert!(id != 0 && mine.present && mine.kind == 0, "P:C07 no pending-request slot under the proposed id");
    kani::cover!(true, "race evaluated");
    *SCHED_TARGET.lock().unwrap() = None;
    core::mem::forget((rx, accepted));
    forget_ep(ep);
}
h!(c07_alloc_race_w0, 8, f_c07_alloc_race(0));
h!(c07_alloc_race_w1, 8, f_c07_alloc_race(1));
h!(c07_alloc_race_w2, 8, f_c07_alloc_race(2));
h!(c07_request_acked, 8, f_c07_request(0));
h!(c07_request_rejected_r1, 8, f_c07_request(1));
h!(c07_request_rejected_r2, 8, f_c07_request(2));

/// Acceptor: the application sees exactly the requested host bytes and port, credit = the
/// requester's window, and the Acknowledge (with our own window) is queued before delivery.
fn f_c07_accept() {
    let mut ep = endpoint(small_options(), KRng::fixed([1, 2, 3, 4]));
    let host = leak2(kani::any());
    let port: u16 = kani::any();
    let rw: u32 = kani::any();
    let id: u32 = ID_A;
    // (what process_frame(Connect) forwards to; the forwarding itself is C10's connect_* rows)
    let r = now_or_never(ep.task.con_recv_new_stream(id, Bytes::from_static(&host[..]), port, rw));
    vassert!(matches!(r, Some(Ok(()))), "P:C10 Connect made the connection task fail or block");
    core::mem::forget(r);
    let m = pop_out_bytes(&mut ep.tx_msg_rx);
    match &m {
        Some(b) => vassert!(b.len() == 9 && b[0] == 0x71 && be32(&b[..], 1) == id && be32(&b[..], 5) == 2, "P:C07 Connect not acknowledged with this endpoint's rwnd"),
        None => vfail!("P:C07 Connect not acknowledged"),
    }
    core::mem::forget(m);
    let fut = ep.mux.accept_stream_channel();
    let s = now_or_never(fut);
    match s {
        Some(Ok(s)) => {
            vassert!(s.flow_id == id && s.dest_port == port, "P:C07 accepted stream has the wrong id / port");
            vassert!(s.dest_host.len() == 2 && s.dest_host[0] == host[0] && s.dest_host[1] == host[1], "P:C07 accepted stream has the wrong host bytes");
            vassert!(s.psh_send_remaining.load(Ordering::Relaxed) == rw, "P:C07 acceptor's credit is not the requester's window");
            core::mem::forget(s);
        }
        _ => vfail!("P:C07 accepted stream not available to the application"),
    }
    vassert!(ep.mux.con_recv_stream_rx.lock().try_recv().is_err(), "P:C07 one Connect produced two streams");
    kani::cover!(true, "accept evaluated");
    forget_ep(ep);
}
h!(c07_accept, 8, f_c07_accept());

/// Connect with the application's accept queue FULL (stream_buffer_size = 2): the step may wait
/// for room, but a stream that was acknowledged must reach the accepting application once it
/// accepts - "each successful stream request yields exactly one stream on each endpoint" (seed
/// C04b: the acknowledged stream was dropped when the queue was full).
fn f_c07_accept_queue_full() {
    let mut ep = endpoint(small_options(), KRng::fixed([1, 2, 3, 4]));
    let host = leak2(kani::any());
    let port: u16 = kani::any();
    let r = now_or_never(ep.task.con_recv_new_stream(ID_A, Bytes::from_static(&host[..]), port, 2));
    vassert!(matches!(r, Some(Ok(()))), "P:C10 Connect made the connection task fail or block");
    core::mem::forget(r);
    let r = now_or_never(ep.task.con_recv_new_stream(ID_B, Bytes::from_static(&host[..]), port, 2));
    vassert!(matches!(r, Some(Ok(()))), "P:C10 Connect made the connection task fail or block");
    core::mem::forget(r);
    let _ = pop_out(&mut ep.tx_msg_rx);
    let _ = pop_out(&mut ep.tx_msg_rx);
    let mut fut = core::mem::ManuallyDrop::new(ep.task.con_recv_new_stream(ID_C, Bytes::from_static(&host[..]), port, 2));
    let p1 = poll_once(unsafe { Pin::new_unchecked(&mut *fut) });
    let first = pop_out(&mut ep.tx_msg_rx);
    let acked = first == Out::Frame { op: OpCode::Acknowledge, id: ID_C };
    let refused_at_once = first == Out::Frame { op: OpCode::Reset, id: ID_C };
    // the application accepts the two queued streams
    let s1 = now_or_never(ep.mux.accept_stream_channel());
    let s2 = now_or_never(ep.mux.accept_stream_channel());
    vassert!(matches!(&s1, Some(Ok(s)) if s.flow_id == ID_A) && matches!(&s2, Some(Ok(s)) if s.flow_id == ID_B), "P:C07 queued streams lost or reordered");
    if let Poll::Ready(r) = &p1 {
        vassert!(r.is_ok(), "P:C10 Connect with a full accept queue ended the connection");
    } else {
        let p2 = poll_once(unsafe { Pin::new_unchecked(&mut *fut) });
        vassert!(matches!(p2, Poll::Ready(Ok(()))), "P:C04 Connect still pending although the application made room");
        core::mem::forget(p2);
    }
    let s3 = now_or_never(ep.mux.accept_stream_channel());
    let got = matches!(&s3, Some(Ok(s)) if s.flow_id == ID_C && s.dest_port == port);
    // an abandoned stream shows as a drop notification (-> Reset to the peer)
    let dropped = matches!(ep.dropped_flows_rx.try_recv(), Ok(id) if id == ID_C);
    vassert!(!(acked && !got), "P:C07 a stream request was acknowledged but the stream never reaches the accepting application");
    vassert!(!dropped || refused_at_once, "P:C07 a stream the peer was told is open was dropped by the endpoint itself");
    vassert!(got || refused_at_once, "P:C07 a Connect was neither answered nor handed to the application");
    kani::cover!(got, "?third stream accepted after the application made room");
    kani::cover!(true, "accept with a full queue evaluated");
    core::mem::forget(s1);
    core::mem::forget(s2);
    core::mem::forget(s3);
    core::mem::forget(p1);
    forget_ep(ep);
}
h!(c07_accept_queue_full, 8, f_c07_accept_queue_full());

// =======================================================================================
// C11: datagram service
// =======================================================================================
fn f_c11_send<const H: usize, const P: usize>() {
    let mut ep = endpoint(small_options(), KRng::fixed([1, 2, 3, 4]));
    let host: [u8; H] = kani::any();
    let data: [u8; P] = kani::any();
    let (id, port): (u32, u16) = (kani::any(), kani::any());
    let d = Datagram { flow_id: id, target_host: Bytes::copy_from_slice(&host), target_port: port, data: Bytes::copy_from_slice(&data) };
    let r = now_or_never(ep.mux.send_datagram(d));
    match &r {
        Some(Ok(())) => {
            vassert!(H <= 255, "P:C11 a datagram with a host longer than 255 octets was accepted");
            let m = pop_out_bytes(&mut ep.tx_msg_rx);
            match &m {
                Some(b) => {
                    vassert!(b.len() == 8 + H + P && b[0] == 0x76 && be32(&b[..], 1) == id, "P:C11 datagram frame header wrong");
                    vassert!(b[5] as usize == H && be16(&b[..], 6) == port, "P:C11 datagram host length / port wrong");
                    vassert!(bytes_eq(&b[8..8 + H], &host) && bytes_eq(&b[8 + H..], &data), "P:C11 datagram host / payload changed");
                }
                None => vfail!("P:C11 accepted datagram was not transmitted"),
            }
            core::mem::forget(m);
        }
        Some(Err(e)) => {
            vassert!(H > 255, "P:C11 a datagram with a host of at most 255 octets was refused");
            vassert!(matches!(e, Error::DatagramHostTooLong), "P:C11 over-long host refused with the wrong error");
        }
        None => vfail!("P:C11 send_datagram blocked"),
    }
    vassert!(pop_out(&mut ep.tx_msg_rx) == Out::Nothing, "P:C11 send_datagram had another effect on the wire");
    kani::cover!(true, "send evaluated");
    core::mem::forget(r);
    forget_ep(ep);
}
h!(c11_send_h0_p0, 8, f_c11_send::<0, 0>());
h!(c11_send_h1_p1, 8, f_c11_send::<1, 1>());
h!(c11_send_h2_p3, 8, f_c11_send::<2, 3>());
h!(c11_send_h3_p1, 12, f_c11_send::<3, 1>());
h!(c11_send_h255_p1, 260, f_c11_send::<255, 1>());
h!(c11_send_h256_p1, 260, f_c11_send::<256, 1>());

/// Receive path from every buffer occupancy (capacity 2): 0 or 1 queued -> appended at the
/// tail; full -> dropped, queue unchanged; always Ok, never pending; stream slots untouched.
fn f_c11_recv<const P: usize>(occupancy: usize) {
    let mut ep = endpoint(small_options(), KRng::fixed([1, 2, 3, 4]));
    let mut by = install_bystander(&ep);
    let mut k = 0;
    while k < occupancy {
        let pre = Frame::new_datagram_owned(100 + k as u32, Bytes::new(), 1, Bytes::new());
        let r = now_or_never(ep.task.process_frame(pre, false));
        vassert!(matches!(r, Some(Ok(()))), "P:C11 datagram made process_frame fail");
        core::mem::forget(r);
        k += 1;
    }
    let host = leak1(kani::any());
    let data: [u8; P] = kani::any();
    let (id, port): (u32, u16) = (kani::any(), kani::any());
    let f = Frame::new_datagram_owned(id, Bytes::from_static(&host[..]), port, Bytes::copy_from_slice(&data));
    let r = now_or_never(ep.task.process_frame(f, false));
    vassert!(matches!(r, Some(Ok(()))), "P:C11 a datagram terminated the connection or blocked the connection task");
    core::mem::forget(r);
    vassert!(pop_out(&mut ep.tx_msg_rx) == Out::Nothing, "P:C11 a datagram was answered");
    // drain in order
    let mut k = 0;
    while k < occupancy && k < 2 {
        let got = now_or_never(ep.mux.get_datagram());
        match got {
            Some(Ok(d)) => vassert!(d.flow_id == 100 + k as u32, "P:C11 datagrams delivered out of order"),
            _ => vfail!("P:C11 queued datagram lost"),
        }
        k += 1;
    }
    // (through the public API only, so that a change of the receiver's representation does not
    // break the harness: seed C11c)
    let got = now_or_never(ep.mux.get_datagram());
    if occupancy < 2 {
        match &got {
            Some(Ok(d)) => {
                vassert!(d.flow_id == id && d.target_port == port, "P:C11 delivered datagram has the wrong flow id / port (or datagrams are delivered out of order)");
                vassert!(d.target_host.len() == 1 && d.target_host[0] == host[0] && bytes_eq(&d.data, &data), "P:C11 delivered datagram has the wrong host / payload");
            }
            _ => vfail!("P:C11 datagram lost although the buffer had room"),
        }
        let again = now_or_never(ep.mux.get_datagram());
        vassert!(again.is_none(), "P:C11 datagram delivered twice");
        core::mem::forget(again);
    } else {
        vassert!(got.is_none(), "P:C11 datagram accepted beyond the buffer size");
    }
    check_bystander(&ep, &mut by);
    kani::cover!(true, "receive evaluated");
    core::mem::forget(got);
    core::mem::forget(by);
    forget_ep(ep);
}
h!(c11_recv_empty_p0, 8, f_c11_recv::<0>(0));
h!(c11_recv_empty_p1, 8, f_c11_recv::<1>(0));
h!(c11_recv_one_p3, 8, f_c11_recv::<3>(1));
h!(c11_recv_full_p2, 8, f_c11_recv::<2>(2));

/// Sender / receiver agreement: what `send_datagram` transmits is a frame the peer's decoder
/// accepts as a Datagram (a short payload must not tear the connection down: an undecodable
/// message ends the connection, see `process_message`).
fn f_c11_agreement<const P: usize>() {
    let mut a = endpoint(small_options(), KRng::fixed([1, 2, 3, 4]));
    let data: [u8; P] = kani::any();
    let id: u32 = kani::any();
    let d = Datagram { flow_id: id, target_host: Bytes::new(), target_port: kani::any(), data: Bytes::copy_from_slice(&data) };
    let r = now_or_never(a.mux.send_datagram(d));
    vassert!(matches!(r, Some(Ok(()))), "P:C11 send_datagram refused a valid datagram");
    core::mem::forget(r);
    match a.tx_msg_rx.try_recv() {
        Ok(Message::Binary(m)) => {
            // copy to a stack array so that the opcode octet stays a constant for the decoder
            let mut buf = [0u8; 16];
            vassert!(m.len() == 8 + P, "P:C11 datagram frame has the wrong length");
            let mut i = 0;
            while i < 8 + P {
                buf[i] = m[i];
                i += 1;
            }
            vassert!(buf[0] == 0x76, "P:C11 datagram frame has the wrong opcode");
            buf[0] = 0x76;
            let f = Frame::try_from(&buf[..8 + P]);
            match &f {
                Ok(f) => vassert!(f.id == id && f.opcode() == OpCode::Datagram, "P:C11 transmitted datagram decodes to another frame"),
                Err(_) => vfail!("P:C11 a datagram produced by send_datagram is rejected by the receiving endpoint's decoder (the connection would end)"),
            }
            core::mem::forget(f);
        }
        _ => vfail!("P:C11 accepted datagram was not transmitted"),
    }
    kani::cover!(true, "agreement evaluated");
    forget_ep(a);
}
h!(c11_agreement_p0, 20, f_c11_agreement::<0>());
h!(c11_agreement_p1, 20, f_c11_agreement::<1>());
h!(c11_agreement_p3, 20, f_c11_agreement::<3>());
h!(c11_agreement_p4, 20, f_c11_agreement::<4>());

// =======================================================================================
// C15: bind requests
// =======================================================================================
fn bind_opts() -> Options {
    small_options().bind_buffer_size(2)
}
/// A bind request with another bind request (of this endpoint) pending at the same time: the
/// peer first answers the OTHER one, then this one; each gets exactly its own answer, once.
fn f_c15_requester(this_ok: bool, other_ok: bool) {
    // scripted RNG: 0 and the id in use are skipped (all draw sequences: c07_id_alloc)
    let mut ep = endpoint(small_options(), KRng::fixed([0, ID_B, ID_C, 9]));
    let mut other = install_bind_requested(&ep, ID_B);
    let h1 = leak1(kani::any());
    let p1: u16 = kani::any();
    let dgram: bool = kani::any();
    let f1 = ep.mux.request_bind(&h1[..], p1, if dgram { BindType::Datagram } else { BindType::Stream });
    let mut f1 = core::mem::ManuallyDrop::new(f1);
    vassert!(poll_once(unsafe { Pin::new_unchecked(&mut *f1) }).is_pending(), "P:C15 bind request resolved before any answer");
    let m1 = pop_out_bytes(&mut ep.tx_msg_rx);
    let id1 = match &m1 {
        Some(a) => {
            vassert!(a.len() == 9 && a[0] == 0x75 && a[5] == (if dgram { 3 } else { 1 }) && be16(&a[..], 6) == p1 && a[8] == h1[0], "P:C15 Bind frame does not carry the requested type / port / host");
            be32(&a[..], 1)
        }
        None => vfail!("P:C15 bind request did not send a Bind frame"),
    };
    core::mem::forget(m1);
    vassert!(id1 == ID_C, "P:C15 bind request uses id 0 or an id in use");
    vassert!(pop_out(&mut ep.tx_msg_rx) == Out::Nothing, "P:C15 more than one frame per bind request");
    // the peer answers the other request first
    let a2 = if other_ok { Frame::new_finish(ID_B) } else { Frame::new_reset(ID_B) };
    let r = now_or_never(ep.task.process_frame(a2, false));
    vassert!(matches!(r, Some(Ok(()))), "P:C10 bind answer made process_frame fail");
    core::mem::forget(r);
    vassert!(poll_once(unsafe { Pin::new_unchecked(&mut *f1) }).is_pending(), "P:C15 a bind request was resolved by the answer to another one");
    match other.try_recv() {
        Ok(v) => vassert!(v == other_ok, "P:C15 bind request resolved with the wrong verdict"),
        Err(_) => vfail!("P:C15 answered bind request did not resolve"),
    }
    let a1 = if this_ok { Frame::new_finish(id1) } else { Frame::new_reset(id1) };
    let r = now_or_never(ep.task.process_frame(a1, false));
    vassert!(matches!(r, Some(Ok(()))), "P:C10 bind answer made process_frame fail");
    core::mem::forget(r);
    match poll_once(unsafe { Pin::new_unchecked(&mut *f1) }) {
        Poll::Ready(Ok(v)) => vassert!(v == this_ok, "P:C15 bind request resolved with the wrong verdict"),
        _ => vfail!("P:C15 answered bind request did not resolve"),
    }
    vassert!(pop_out(&mut ep.tx_msg_rx) == Out::Nothing, "P:C15 a bind answer was answered");
    vassert!(ep.task.flows.read().len() == 0, "P:C15 flow ids of resolved bind requests are not released");
    kani::cover!(true, "requester evaluated");
    core::mem::forget(other);
    forget_ep(ep);
}
h!(c15_requester_ok_ok, 8, f_c15_requester(true, true));
h!(c15_requester_ok_rej, 8, f_c15_requester(true, false));
h!(c15_requester_rej_ok, 8, f_c15_requester(false, true));

/// The id of an answered request is reused by a second request BEFORE the first requester is
/// polled again: the first requester's completion must not touch the second request.
fn f_c15_requester_id_reuse(first_ok: bool) {
    let mut ep = endpoint(small_options(), KRng::fixed([ID_C, ID_C, 9, 9]));
    let h = leak1(kani::any());
    let f1 = ep.mux.request_bind(&h[..], 1, BindType::Stream);
    let mut f1 = core::mem::ManuallyDrop::new(f1);
    vassert!(poll_once(unsafe { Pin::new_unchecked(&mut *f1) }).is_pending(), "P:C15 bind request resolved before any answer");
    vassert!(pop_out(&mut ep.tx_msg_rx) == Out::Frame { op: OpCode::Bind, id: ID_C }, "P:C15 bind request did not send a Bind frame under the drawn id");
    let a1 = if first_ok { Frame::new_finish(ID_C) } else { Frame::new_reset(ID_C) };
    let r = now_or_never(ep.task.process_frame(a1, false));
    vassert!(matches!(r, Some(Ok(()))), "P:C10 bind answer made process_frame fail");
    core::mem::forget(r);
    // second request: the id is free again and is drawn again
    let f2 = ep.mux.request_bind(&h[..], 2, BindType::Datagram);
    let mut f2 = core::mem::ManuallyDrop::new(f2);
    vassert!(poll_once(unsafe { Pin::new_unchecked(&mut *f2) }).is_pending(), "P:C15 second bind request resolved before any answer");
    vassert!(pop_out(&mut ep.tx_msg_rx) == Out::Frame { op: OpCode::Bind, id: ID_C }, "P:C15 the released id was not reused for the second request");
    // only now the first requester runs again
    match poll_once(unsafe { Pin::new_unchecked(&mut *f1) }) {
        Poll::Ready(Ok(v)) => vassert!(v == first_ok, "P:C15 bind request resolved with the wrong verdict"),
        _ => vfail!("P:C15 answered bind request did not resolve"),
    }
    let sn = snap(&ep, ID_C, None);
    vassert!(sn.present && sn.kind == 2, "P:C15 completing one bind request removed the pending request that reuses its id");
    vassert!(pop_out(&mut ep.tx_msg_rx) == Out::Nothing, "P:C15 completing a bind request sent a frame");
    let r = now_or_never(ep.task.process_frame(Frame::new_finish(ID_C), false));
    vassert!(matches!(r, Some(Ok(()))), "P:C10 bind answer made process_frame fail");
    core::mem::forget(r);
    match poll_once(unsafe { Pin::new_unchecked(&mut *f2) }) {
        Poll::Ready(Ok(v)) => vassert!(v, "P:C15 the second bind request, accepted by the peer, did not resolve with true"),
        _ => vfail!("P:C15 the second bind request, accepted by the peer, did not resolve"),
    }
    vassert!(pop_out(&mut ep.tx_msg_rx) == Out::Nothing, "P:C15 a bind answer was answered");
    kani::cover!(true, "id reuse evaluated");
    forget_ep(ep);
}
h!(c15_requester_id_reuse_ok, 8, f_c15_requester_id_reuse(true));
h!(c15_requester_id_reuse_rej, 8, f_c15_requester_id_reuse(false));

/// A pending bind request when the connection winds down resolves with `false`.
fn f_c15_teardown() {
    let mut ep = endpoint(small_options(), KRng::fixed([ID_C, 2, 3, 4]));
    let h1 = leak1(kani::any());
    let f1 = ep.mux.request_bind(&h1[..], 1, BindType::Stream);
    let mut f1 = core::mem::ManuallyDrop::new(f1);
    vassert!(poll_once(unsafe { Pin::new_unchecked(&mut *f1) }).is_pending(), "P:C15 bind request resolved before any answer");
    let slot = { ep.task.flows.write().drain().next() };
    match slot {
        Some((id, s)) => ep.task.close_flow_local(s, id, true),
        None => vfail!("P:C15 no slot for a pending bind request"),
    }
    match poll_once(unsafe { Pin::new_unchecked(&mut *f1) }) {
        Poll::Ready(Ok(v)) => vassert!(!v, "P:C15 bind request resolved `true` by teardown"),
        Poll::Ready(Err(e)) => {
            vassert!(matches!(e, Error::Closed), "P:C15 bind request failed with something other than Closed at teardown");
            core::mem::forget(e);
        }
        Poll::Pending => vfail!("P:C15 pending bind request not resolved at teardown"),
    }
    kani::cover!(true, "teardown evaluated");
    forget_ep(ep);
}
h!(c15_teardown, 8, f_c15_teardown());

/// Responder: the application is shown exactly the request; its decision produces exactly one
/// frame for that id: Finish for accept, Reset for reject or drop.
fn f_c15_responder(decision: u8) {
    let mut ep = endpoint(bind_opts(), KRng::fixed([1, 2, 3, 4]));
    let host = leak1(kani::any());
    let (id, port): (u32, u16) = (kani::any(), kani::any());
    let dgram: bool = kani::any();
    let bt = if dgram { BindType::Datagram } else { BindType::Stream };
    let r = now_or_never(ep.task.process_frame(Frame::new_bind(id, bt, &host[..], port), false));
    vassert!(matches!(r, Some(Ok(()))), "P:C10 Bind made process_frame fail or block");
    core::mem::forget(r);
    vassert!(pop_out(&mut ep.tx_msg_rx) == Out::Nothing, "P:C15 the connection task answered a Bind itself although binds are enabled");
    let req = now_or_never(ep.mux.next_bind_request());
    let req = match req {
        Some(Ok(q)) => q,
        _ => vfail!("P:C15 bind request not shown to the application"),
    };
    vassert!(req.flow_id() == id && req.port() == port && req.bind_type() == bt, "P:C15 application sees the wrong flow id / port / type");
    vassert!(req.host().len() == 1 && req.host()[0] == host[0], "P:C15 application sees the wrong host bytes");
    match decision {
        0 => {
            vassert!(req.reply(true).is_ok(), "P:C15 reply(true) failed on a live connection");
            drop(req);
            vassert!(pop_out(&mut ep.tx_msg_rx) == Out::Frame { op: OpCode::Finish, id }, "P:C15 accepting a bind did not send Finish for its id");
        }
        1 => {
            vassert!(req.reply(false).is_ok(), "P:C15 reply(false) failed on a live connection");
            drop(req);
            vassert!(pop_out(&mut ep.tx_msg_rx) == Out::Frame { op: OpCode::Reset, id }, "P:C15 rejecting a bind did not send Reset for its id");
        }
        _ => {
            drop(req);
            vassert!(pop_out(&mut ep.tx_msg_rx) == Out::Frame { op: OpCode::Reset, id }, "P:C15 dropping a bind request did not send Reset for its id");
        }
    }
    vassert!(pop_out(&mut ep.tx_msg_rx) == Out::Nothing, "P:C15 a bind request was answered more than once");
    vassert!(ep.mux.bnd_request_rx.as_ref().unwrap().lock().try_recv().is_err(), "P:C15 one Bind frame produced two requests");
    kani::cover!(true, "responder evaluated");
    forget_ep(ep);
}
h!(c15_responder_accept, 8, f_c15_responder(0));
h!(c15_responder_reject, 8, f_c15_responder(1));
h!(c15_responder_drop, 8, f_c15_responder(2));

/// Responder with the application's bind queue FULL: the request may wait for room (the step is
/// pending and keeps it) or be refused with a Reset, but it must not vanish - "every bind request
/// resolves exactly once" (seed C15c: the request was discarded without any answer).
fn f_c15_responder_queue_full() {
    let mut ep = endpoint(bind_opts(), KRng::fixed([1, 2, 3, 4]));
    let host = leak1(kani::any());
    let port: u16 = kani::any();
    // two requests fill the queue (bind_buffer_size = 2)
    let r = now_or_never(ep.task.process_frame(Frame::new_bind(ID_A, BindType::Stream, &host[..], port), false));
    vassert!(matches!(r, Some(Ok(()))), "P:C10 Bind made process_frame fail or block");
    core::mem::forget(r);
    let r = now_or_never(ep.task.process_frame(Frame::new_bind(ID_B, BindType::Stream, &host[..], port), false));
    vassert!(matches!(r, Some(Ok(()))), "P:C10 Bind made process_frame fail or block");
    core::mem::forget(r);
    vassert!(pop_out(&mut ep.tx_msg_rx) == Out::Nothing, "P:C15 the connection task answered a Bind itself although binds are enabled");
    // the third one finds the queue full
    let mut fut = core::mem::ManuallyDrop::new(ep.task.process_frame(Frame::new_bind(ID_C, BindType::Stream, &host[..], port), false));
    let p1 = poll_once(unsafe { Pin::new_unchecked(&mut *fut) });
    let answered_1 = pop_out(&mut ep.tx_msg_rx);
    // the application takes the first two
    let q1 = now_or_never(ep.mux.next_bind_request());
    let q2 = now_or_never(ep.mux.next_bind_request());
    vassert!(matches!(&q1, Some(Ok(q)) if q.flow_id() == ID_A) && matches!(&q2, Some(Ok(q)) if q.flow_id() == ID_B), "P:C15 queued bind requests lost or reordered");
    let mut done = matches!(p1, Poll::Ready(_));
    if let Poll::Ready(r) = &p1 {
        vassert!(r.is_ok(), "P:C10 Bind with a full queue ended the connection");
    } else {
        // there is room now: the pending step must finish
        let p2 = poll_once(unsafe { Pin::new_unchecked(&mut *fut) });
        vassert!(matches!(p2, Poll::Ready(Ok(()))), "P:C15 Bind still pending although the application made room");
        done = true;
        core::mem::forget(p2);
    }
    let q3 = now_or_never(ep.mux.next_bind_request());
    let shown = matches!(&q3, Some(Ok(q)) if q.flow_id() == ID_C && q.port() == port);
    let refused = answered_1 == Out::Frame { op: OpCode::Reset, id: ID_C } || pop_out(&mut ep.tx_msg_rx) == Out::Frame { op: OpCode::Reset, id: ID_C };
    vassert!(done && (shown || refused), "P:C15 a bind request that found the application's queue full was neither shown to the application nor refused: it will never resolve");
    vassert!(!(shown && refused), "P:C15 a bind request was both refused and shown to the application");
    kani::cover!(shown, "?request shown after the application made room");
    kani::cover!(true, "responder with a full queue evaluated");
    core::mem::forget(q1);
    core::mem::forget(q2);
    core::mem::forget(q3);
    core::mem::forget(p1);
    forget_ep(ep);
}
h!(c15_responder_queue_full, 8, f_c15_responder_queue_full());

// =======================================================================================
// C16: keepalive under a virtual clock (tokio::time model).  The real `schedule_ping_task`
// runs; ticks come from the interval model, timestamps read the same clock.
// =======================================================================================
use crate::timing::OptionalDuration;
use tokio::time::verif as vclock;
fn ka_options(i_s: u64, t_s: u64) -> Options {
    // 0 = disabled (as the command line maps it)
    let i = if i_s == 0 { OptionalDuration::NONE } else { OptionalDuration::from_secs(i_s) };
    let t = if t_s == 0 { OptionalDuration::NONE } else { OptionalDuration::from_secs(t_s) };
    small_options().keepalive_interval(i).keepalive_timeout(t)
}
fn count_pings(rx: &mut mpsc::UnboundedReceiver<Message>) -> usize {
    let mut n = 0;
    let mut k = 0;
    while k < 3 {
        match pop_out(rx) {
            Out::Ping => n += 1,
            Out::Nothing => break,
            _ => vfail!("P:C16 the keepalive loop queued something other than a Ping"),
        }
        k += 1;
    }
    n
}
/// Pong history chosen by the solver: after each tick the peer answers or not; an answer
/// arrives at a solver-chosen instant before (or at) the next tick.  At every tick the loop
/// must send exactly one Ping and must report a timeout exactly when more than T has
/// elapsed since the last pong (or start-up); hence no earlier than T and no later than
/// T + I after it.
fn f_c16_history(i_s: u64, t_s: u64, ticks: usize) {
    let mut ep = endpoint(ka_options(i_s, t_s), KRng::fixed([1, 2, 3, 4]));
    let i_ms = i_s * 1000;
    // effective timeout: clamped to at least the interval
    let t_ms = if t_s == 0 { u64::MAX } else if t_s < i_s { i_ms } else { t_s * 1000 };
    let fut = ep.task.schedule_ping_task();
    let mut fut = core::mem::ManuallyDrop::new(fut);
    let mut last_pong: u64 = 0;
    let mut k = 0;
    let mut timed_out = false;
    while k < ticks && !timed_out {
        let now = vclock::now_ms();
        vassert!(now == k as u64 * i_ms, "P:C16 tick not at a multiple of the interval");
        let r = poll_once(unsafe { Pin::new_unchecked(&mut *fut) });
        let elapsed = now - last_pong;
        match r {
            Poll::Ready(Err(e)) => {
                vassert!(matches!(e, Error::KeepaliveTimeout), "P:C16 the keepalive loop failed with something other than KeepaliveTimeout");
                vassert!(elapsed > t_ms, "P:C16 keepalive timeout reported although no more than T elapsed since the last pong");
                vassert!(elapsed <= t_ms.saturating_add(i_ms), "P:C16 keepalive timeout reported later than T + I after the last pong");
                timed_out = true;
                core::mem::forget(e);
            }
            Poll::Ready(Ok(())) => vfail!("P:C16 the keepalive loop ended without an error"),
            Poll::Pending => {
                vassert!(elapsed <= t_ms, "P:C16 peer silent for more than T but no keepalive timeout at this tick");
                vassert!(count_pings(&mut ep.tx_msg_rx) == 1, "P:C16 not exactly one Ping per interval");
                vassert!(vclock::next_deadline_ms() == now + i_ms, "P:C16 next tick not scheduled one interval later");
                // the peer may answer at some instant in (now, now + I]
                if kani::any() {
                    let at: u64 = kani::any();
                    kani::assume(at > now && at <= now + i_ms);
                    vclock::advance_to(at);
                    let pr = now_or_never(ep.task.process_message(Message::Pong, false));
                    vassert!(matches!(pr, Some(Ok(false))), "P:C16 a Pong made process_message fail");
                    core::mem::forget(pr);
                    last_pong = at;
                }
                vclock::advance_to(now + i_ms);
            }
        }
        k += 1;
    }
    kani::cover!(timed_out, "?a timeout was reported");
    kani::cover!(!timed_out, "?all ticks passed without timeout");
    kani::cover!(true, "history evaluated");
    forget_ep(ep);
}
h!(c16_history_i1_t1, 8, f_c16_history(1, 1, 3));
h!(c16_history_i2_t3, 8, f_c16_history(2, 3, 4));
h!(c16_history_i1_t3, 8, f_c16_history(1, 3, 5));
h!(c16_history_i2_t1_clamped, 8, f_c16_history(2, 1, 3));
h!(c16_history_i1_tnone, 8, f_c16_history(1, 0, 4));

/// Keepalive disabled: no Ping, no timeout, no timer armed - whatever the timeout option is.
fn f_c16_disabled(t_s: u64) {
    let mut ep = endpoint(ka_options(0, t_s), KRng::fixed([1, 2, 3, 4]));
    let fut = ep.task.schedule_ping_task();
    let mut fut = core::mem::ManuallyDrop::new(fut);
    let mut k = 0;
    while k < 2 {
        vassert!(poll_once(unsafe { Pin::new_unchecked(&mut *fut) }).is_pending(), "P:C16 keepalive disabled but the loop ended / timed out");
        vassert!(pop_out(&mut ep.tx_msg_rx) == Out::Nothing, "P:C16 keepalive disabled but a Ping was sent");
        vassert!(vclock::next_deadline_ms() == u64::MAX, "P:C16 keepalive disabled but a timer is armed");
        let dt: u64 = kani::any();
        kani::assume(dt <= 1_000_000);
        vclock::advance_to(vclock::now_ms() + dt);
        k += 1;
    }
    kani::cover!(true, "disabled keepalive evaluated");
    forget_ep(ep);
}
h!(c16_disabled_tnone, 8, f_c16_disabled(0));
h!(c16_disabled_t5, 8, f_c16_disabled(5));

/// Clamping rule of the options API for all values (seconds): after
/// `.keepalive_interval(I).keepalive_timeout(T)` the effective timeout is at least I, and
/// "no timeout" stays "no timeout".
fn f_c16_clamp() {
    let i_s: u64 = kani::any();
    let t_s: u64 = kani::any();
    kani::assume(i_s <= 1_000_000_000 && t_s <= 1_000_000_000);
    let o = ka_options(i_s, t_s);
    let i = o.keepalive_interval;
    let t = o.keepalive_timeout;
    vassert!(t >= i, "P:C16 effective keepalive timeout is shorter than the interval");
    if t_s == 0 {
        vassert!(t.is_none(), "P:C16 a disabled timeout became finite");
    }
    if t_s >= i_s && i_s != 0 && t_s != 0 {
        vassert!(t == OptionalDuration::from_secs(t_s), "P:C16 a timeout longer than the interval was changed");
    }
    if i_s == 0 {
        vassert!(t.is_none(), "P:C16 without an interval (no pings) a finite timeout must not remain");
    }
    kani::cover!(t_s != 0 && t_s < i_s, "?clamped case");
    kani::cover!(true, "clamp evaluated");
}
h!(c16_clamp, 4, f_c16_clamp());

/// The same for durations that are not whole seconds (the library API takes any Duration).
fn f_c16_clamp_millis() {
    // seconds 0..3 and tenths 0..9 each (no symbolic division: Duration::from_millis would need one)
    let (is, it, ts, tt): (u8, u8, u8, u8) = (kani::any(), kani::any(), kani::any(), kani::any());
    kani::assume(is <= 3 && ts <= 3 && it <= 9 && tt <= 9 && (is != 0 || it != 0) && (ts != 0 || tt != 0));
    let di = core::time::Duration::new(is as u64, it as u32 * 100_000_000);
    let dt = core::time::Duration::new(ts as u64, tt as u32 * 100_000_000);
    let o = small_options().keepalive_interval(OptionalDuration::from_secs(1).map(|_| di)).keepalive_timeout(OptionalDuration::from_secs(1).map(|_| dt));
    let i: Option<core::time::Duration> = o.keepalive_interval.into();
    let t: Option<core::time::Duration> = o.keepalive_timeout.into();
    match (i, t) {
        (Some(i), Some(t)) => {
            vassert!(i == di, "P:C16 the interval was changed");
            vassert!(t >= i, "P:C16 effective keepalive timeout is shorter than the interval: a live peer that answers promptly is declared dead at the next tick");
            if dt >= di {
                vassert!(t == dt, "P:C16 a timeout longer than the interval was changed");
            } else {
                vassert!(t == i, "P:C16 a timeout shorter than the interval is not raised to exactly the interval");
            }
        }
        _ => vfail!("P:C16 finite keepalive settings became infinite"),
    }
    kani::cover!(dt < di && ts == is, "?clamped within the same second");
    kani::cover!(true, "clamp evaluated");
}
h!(c16_clamp_millis, 4, f_c16_clamp_millis());

/// The third clause as stated: every ping is answered within T of ITS OWN sending time,
/// with solver-chosen delays; the loop must then never report a timeout.
/// (The implementation measures from the last PONG instead, so two answers that are each
/// in time can still be more than T apart: recorded as a known finding.)
fn f_c16_answered_within_t(i_s: u64, t_s: u64, pings: usize) {
    let mut ep = endpoint(ka_options(i_s, t_s), KRng::fixed([1, 2, 3, 4]));
    let (i_ms, t_ms) = (i_s * 1000, t_s * 1000);
    let fut = ep.task.schedule_ping_task();
    let mut fut = core::mem::ManuallyDrop::new(fut);
    // ping k is sent at the tick k*I and answered at k*I + d[k] with d[k] <= T; answers
    // arrive in order
    let d: [u64; 3] = kani::any();
    kani::assume(d[0] <= t_ms && d[1] <= t_ms && d[2] <= t_ms);
    let pongs = [d[0], i_ms + d[1], 2 * i_ms + d[2]];
    kani::assume(pongs[0] <= pongs[1] && pongs[1] <= pongs[2]);
    let (mut ti, mut pi) = (0usize, 0usize);
    let mut step = 0;
    // `pings` pings (ticks 0..pings-1) and one more tick at which their answers are judged
    while step < 2 * pings + 1 && ti < pings + 1 {
        let tt = ti as u64 * i_ms;
        // an answer can only arrive once its ping was sent
        let pp = if pi < pings && pi < ti { pongs[pi] } else { u64::MAX };
        if pp < tt || (pp == tt && kani::any()) {
            vclock::advance_to(pp);
            let pr = now_or_never(ep.task.process_message(Message::Pong, false));
            vassert!(matches!(pr, Some(Ok(false))), "P:C16 a Pong made process_message fail");
            core::mem::forget(pr);
            pi += 1;
        } else {
            vclock::advance_to(tt);
            match poll_once(unsafe { Pin::new_unchecked(&mut *fut) }) {
                Poll::Ready(_) => vfail!("P:C16 keepalive timeout although every ping was answered within T"),
                Poll::Pending => vassert!(count_pings(&mut ep.tx_msg_rx) == 1, "P:C16 not exactly one Ping per interval"),
            }
            ti += 1;
        }
        step += 1;
    }
    kani::cover!(ti == pings + 1, "?all ticks passed");
    kani::cover!(true, "scenario evaluated");
    forget_ep(ep);
}
h!(c16_answered_within_t_i2_t3_p2, 8, f_c16_answered_within_t(2, 3, 2));
h!(c16_answered_within_t_i2_t3_p3, 10, f_c16_answered_within_t(2, 3, 3));
h!(c16_answered_within_t_i3_t3_p2, 8, f_c16_answered_within_t(3, 3, 2));

// =======================================================================================
// C08: when the connection ends, everything resolves; a local drop still flushes
// =======================================================================================
/// `wind_down` from a table with one flow of every kind and one frame still on the wire.
/// `drain`: the multiplexor handle was dropped (outbound queue must be flushed in order).
/// The transport then behaves as the solver chooses: sink ready / failing, source ending
/// (None) or failing.
fn f_c08_wind_down(drain: bool, late_frame: bool, end: Step) {
    use tokio::io::{AsyncBufRead, AsyncWrite};
    let mut ep = endpoint(small_options(), KRng::fixed([1, 2, 3, 4]));
    // one established flow with data already delivered, one pending open, one pending bind
    let mut st = install_established(&ep, ID_A, kani::any());
    let d: [u8; 1] = kani::any();
    vassert!(queue_inbound(&ep, ID_A, &d), "P:C02 dispatch failed");
    let mut open_rx = install_requested(&ep, ID_B);
    let mut bind_rx = install_bind_requested(&ep, ID_C);
    // frames queued before the end
    let p1 = leak2(kani::any());
    let p2 = leak2(kani::any());
    ep.task.tx_msg_tx.send(Message::Binary(Bytes::from_static(&p1[..]))).ok();
    ep.task.tx_msg_tx.send(Message::Binary(Bytes::from_static(&p2[..]))).ok();
    // one more Push for the established flow is still in the source
    let late = leak2(kani::any());
    {
        let mut ws = ep.task.ws.lock();
        if late_frame {
            ws.push_in(Frame::new_push_owned(ID_A, Bytes::from_static(&late[..])).into());
        }
        ws.at_end = end; // concrete per instance, see script_end
        ws.ready = if kani::any() { Step::Ok } else { Step::Err };
        ws.close = if kani::any() { Step::Ok } else { Step::Err };
    }
    let sink_ok = ep.task.ws.lock().ready == Step::Ok;
    let Endpoint { mux, task, tx_msg_rx, dropped_flows_rx } = ep;
    let r = now_or_never(task.wind_down(drain, tx_msg_rx, dropped_flows_rx));
    vassert!(r.is_some(), "P:C08 wind-down blocks although the transport ended");
    // -- what reached the peer -----------------------------------------------------------
    {
        let ws = task.ws.lock();
        vassert!(ws.closed, "P:C08 the WebSocket was not closed at the end of the connection");
        if drain && sink_ok {
            vassert!(ws.sent_len == 2, "P:C08 frames queued before the multiplexor was dropped were not all transmitted");
            match (&ws.sent[0], &ws.sent[1]) {
                (Some(Message::Binary(a)), Some(Message::Binary(b))) => {
                    vassert!(a[0] == p1[0] && a[1] == p1[1] && b[0] == p2[0] && b[1] == p2[1], "P:C08 queued frames were transmitted out of order or modified");
                }
                _ => vfail!("P:C08 queued frames were replaced by something else"),
            }
        }
        if !drain {
            vassert!(ws.sent_len == 0, "P:C08 frames were transmitted after the peer ended the connection");
        }
    }
    // -- every pending and later operation resolves -----------------------------------------
    vassert!(task.flows.read().len() == 0, "P:C08 flows survive the end of the connection");
    let w = counting_waker();
    let mut cx = Context::from_waker(&w);
    // reads: delivered data (including what was still in the source), then end-of-stream
    match Pin::new(&mut st).poll_fill_buf(&mut cx) {
        Poll::Ready(Ok(b)) => vassert!(b.len() == 1 && b[0] == d[0], "P:C08 data delivered before the end is not readable afterwards"),
        _ => vfail!("P:C08 read after the end of the connection failed or blocked"),
    }
    Pin::new(&mut st).consume(1);
    if late_frame {
        match Pin::new(&mut st).poll_fill_buf(&mut cx) {
            Poll::Ready(Ok(b)) => vassert!(b.len() == 2 && b[0] == late[0] && b[1] == late[1], "P:C08 a frame that was still in flight when the connection ended was lost or corrupted"),
            _ => vfail!("P:C08 read after the end of the connection failed or blocked"),
        }
        Pin::new(&mut st).consume(2);
    }
    match Pin::new(&mut st).poll_fill_buf(&mut cx) {
        Poll::Ready(Ok(b)) => vassert!(b.is_empty(), "P:C08 no end-of-stream after the end of the connection"),
        _ => vfail!("P:C08 read blocks after the end of the connection"),
    }
    let x: [u8; 1] = kani::any();
    match Pin::new(&mut st).poll_write(&mut cx, &x) {
        Poll::Ready(Err(e)) => vassert!(e.kind() == std::io::ErrorKind::BrokenPipe, "P:C08 write after the end failed with something other than BrokenPipe"),
        _ => vfail!("P:C08 write after the end of the connection did not fail"),
    }
    match open_rx.try_recv() {
        Ok(None) => {}
        _ => vfail!("P:C08 a pending stream request was not resolved at the end of the connection"),
    }
    match bind_rx.try_recv() {
        Ok(false) => {}
        _ => vfail!("P:C08 a pending bind request was not answered negatively at the end of the connection"),
    }
    // the task object goes away when its future completes: API calls then report Closed
    core::mem::drop(task);
    match now_or_never(mux.accept_stream_channel()) {
        Some(Err(Error::Closed)) => {}
        _ => vfail!("P:C08 accept did not report Closed after the connection ended"),
    }
    match now_or_never(mux.get_datagram()) {
        Some(Err(Error::Closed)) => {}
        _ => vfail!("P:C08 get_datagram did not report Closed after the connection ended"),
    }
    match now_or_never(mux.new_stream_channel(b"h", 1)) {
        Some(Err(Error::Closed)) => {}
        _ => vfail!("P:C08 a later stream request did not report Closed"),
    }
    match now_or_never(mux.send_datagram(Datagram { flow_id: 1, target_host: Bytes::new(), target_port: 1, data: Bytes::new() })) {
        Some(Err(Error::Closed)) => {}
        _ => vfail!("P:C08 a later send_datagram did not report Closed"),
    }
    kani::cover!(late_frame, "?a frame was still in flight");
    kani::cover!(true, "wind-down evaluated");
    core::mem::forget((st, open_rx, bind_rx, mux, r));
}
// ---- C08 decomposed: wind_down treats the table entries and the outbound queue independently
// (drain().for_each / one queue), so one instance per ingredient; the combined scenario above
// stays as a thorough instance.
#[derive(Clone, Copy, PartialEq, Eq)]
enum WdFlow {
    None,
    Established,
    Requested,
    BindRequested,
}
/// `end` is concrete per instance: `while let Some(Ok(m)) = next()` is not folded by the engine
/// when the value is `Some(Err(_))` (DESIGN §3.8), and an unfolded loop explores
/// `process_message` on a garbage frame once per unwinding.
fn script_end(ep: &Endpoint, end: Step) {
    let mut ws = ep.task.ws.lock();
    ws.at_end = end;
    ws.ready = if kani::any() { Step::Ok } else { Step::Err };
    ws.close = if kani::any() { Step::Ok } else { Step::Err };
}
/// wind_down with ONE table entry of kind `k` (peer ended the connection: nothing is drained).
fn f_c08_wd_flow(k: WdFlow, end: Step) {
    use tokio::io::{AsyncBufRead, AsyncWrite};
    let ep = endpoint(small_options(), KRng::fixed([1, 2, 3, 4]));
    let d: [u8; 1] = kani::any();
    let mut st = None;
    let mut open_rx = None;
    let mut bind_rx = None;
    match k {
        WdFlow::Established => {
            st = Some(install_established(&ep, ID_A, kani::any()));
            vassert!(queue_inbound(&ep, ID_A, &d), "P:C02 dispatch failed");
        }
        WdFlow::Requested => open_rx = Some(install_requested(&ep, ID_B)),
        WdFlow::BindRequested => bind_rx = Some(install_bind_requested(&ep, ID_C)),
        WdFlow::None => {}
    }
    script_end(&ep, end);
    let Endpoint { mux, task, tx_msg_rx, dropped_flows_rx } = ep;
    let r = now_or_never(task.wind_down(false, tx_msg_rx, dropped_flows_rx));
    vassert!(r.is_some(), "P:C08 wind-down blocks although the transport ended");
    vassert!(task.ws.lock().closed, "P:C08 the WebSocket was not closed at the end of the connection");
    vassert!(task.ws.lock().sent_len == 0, "P:C08 frames were transmitted after the peer ended the connection");
    vassert!(task.flows.read().len() == 0, "P:C08 flows survive the end of the connection");
    let w = counting_waker();
    let mut cx = Context::from_waker(&w);
    if let Some(st) = st.as_mut() {
        match Pin::new(&mut *st).poll_fill_buf(&mut cx) {
            Poll::Ready(Ok(b)) => vassert!(b.len() == 1 && b[0] == d[0], "P:C08 data delivered before the end is not readable afterwards"),
            _ => vfail!("P:C08 read after the end of the connection failed or blocked"),
        }
        Pin::new(&mut *st).consume(1);
        match Pin::new(&mut *st).poll_fill_buf(&mut cx) {
            Poll::Ready(Ok(b)) => vassert!(b.is_empty(), "P:C08 no end-of-stream after the end of the connection"),
            _ => vfail!("P:C08 read blocks after the end of the connection"),
        }
        let x: [u8; 1] = kani::any();
        match Pin::new(&mut *st).poll_write(&mut cx, &x) {
            Poll::Ready(Err(e)) => vassert!(e.kind() == std::io::ErrorKind::BrokenPipe, "P:C08 write after the end failed with something other than BrokenPipe"),
            _ => vfail!("P:C08 write after the end of the connection did not fail"),
        }
    }
    if let Some(rx) = open_rx.as_mut() {
        match rx.try_recv() {
            Ok(None) => {}
            _ => vfail!("P:C08 a pending stream request was not resolved at the end of the connection"),
        }
    }
    if let Some(rx) = bind_rx.as_mut() {
        match rx.try_recv() {
            Ok(false) => {}
            _ => vfail!("P:C08 a pending bind request was not answered negatively at the end of the connection"),
        }
    }
    kani::cover!(true, "wind-down evaluated");
    core::mem::forget((st, open_rx, bind_rx, mux, r, task));
}
h!(c08_wd_flow_none, 8, f_c08_wd_flow(WdFlow::None, Step::Ok));
h!(c08_wd_flow_established, 8, f_c08_wd_flow(WdFlow::Established, Step::Ok));
h!(c08_wd_flow_requested, 8, f_c08_wd_flow(WdFlow::Requested, Step::Ok));
h!(c08_wd_flow_bind, 8, f_c08_wd_flow(WdFlow::BindRequested, Step::Ok));
h!(c08_wd_flow_established_srcerr, 8, f_c08_wd_flow(WdFlow::Established, Step::Err));

/// A Push for an established flow is still inside the source when the connection ends: it is
/// dispatched before the flow gets its end-of-stream.
fn f_c08_wd_inflight() {
    use tokio::io::AsyncBufRead;
    let ep = endpoint(small_options(), KRng::fixed([1, 2, 3, 4]));
    let mut st = install_established(&ep, ID_A, kani::any());
    let late = leak2(kani::any());
    ep.task.ws.lock().push_in(Frame::new_push_owned(ID_A, Bytes::from_static(&late[..])).into());
    script_end(&ep, Step::Ok);
    let Endpoint { mux, task, tx_msg_rx, dropped_flows_rx } = ep;
    let r = now_or_never(task.wind_down(false, tx_msg_rx, dropped_flows_rx));
    vassert!(r.is_some(), "P:C08 wind-down blocks although the transport ended");
    vassert!(task.flows.read().len() == 0, "P:C08 flows survive the end of the connection");
    let w = counting_waker();
    let mut cx = Context::from_waker(&w);
    match Pin::new(&mut st).poll_fill_buf(&mut cx) {
        Poll::Ready(Ok(b)) => vassert!(b.len() == 2 && b[0] == late[0] && b[1] == late[1], "P:C08 a frame that was still in flight when the connection ended was lost or corrupted"),
        _ => vfail!("P:C08 read after the end of the connection failed or blocked"),
    }
    Pin::new(&mut st).consume(2);
    match Pin::new(&mut st).poll_fill_buf(&mut cx) {
        Poll::Ready(Ok(b)) => vassert!(b.is_empty(), "P:C08 no end-of-stream after the end of the connection"),
        _ => vfail!("P:C08 read blocks after the end of the connection"),
    }
    kani::cover!(true, "wind-down evaluated");
    core::mem::forget((st, mux, r, task));
}
h!(c08_wd_inflight_established, 8, f_c08_wd_inflight());

/// wind_down with an empty table and two frames queued before the end: transmitted in order
/// before close iff this is a local drop and the sink works; never after the peer ended.
fn f_c08_wd_queue(drain: bool, end: Step) {
    let ep = endpoint(small_options(), KRng::fixed([1, 2, 3, 4]));
    let p1 = leak2(kani::any());
    let p2 = leak2(kani::any());
    ep.task.tx_msg_tx.send(Message::Binary(Bytes::from_static(&p1[..]))).ok();
    ep.task.tx_msg_tx.send(Message::Binary(Bytes::from_static(&p2[..]))).ok();
    script_end(&ep, end);
    let sink_ok = ep.task.ws.lock().ready == Step::Ok;
    let Endpoint { mux, task, tx_msg_rx, dropped_flows_rx } = ep;
    let r = now_or_never(task.wind_down(drain, tx_msg_rx, dropped_flows_rx));
    vassert!(r.is_some(), "P:C08 wind-down blocks although the transport ended");
    {
        let ws = task.ws.lock();
        vassert!(ws.closed, "P:C08 the WebSocket was not closed at the end of the connection");
        if drain && sink_ok {
            vassert!(ws.sent_len == 2, "P:C08 frames queued before the multiplexor was dropped were not all transmitted");
            match (&ws.sent[0], &ws.sent[1]) {
                (Some(Message::Binary(a)), Some(Message::Binary(b))) => {
                    vassert!(a[0] == p1[0] && a[1] == p1[1] && b[0] == p2[0] && b[1] == p2[1], "P:C08 queued frames were transmitted out of order or modified");
                }
                _ => vfail!("P:C08 queued frames were replaced by something else"),
            }
        }
        if !drain {
            vassert!(ws.sent_len == 0, "P:C08 frames were transmitted after the peer ended the connection");
        }
        kani::cover!(ws.sent_len == 2, "?both queued frames transmitted");
    }
    kani::cover!(true, "wind-down evaluated");
    core::mem::forget((mux, r, task));
}
h!(c08_wd_queue_local_drop, 8, f_c08_wd_queue(true, Step::Ok));
h!(c08_wd_queue_peer_ended, 8, f_c08_wd_queue(false, Step::Ok));
h!(c08_wd_queue_local_drop_srcerr, 8, f_c08_wd_queue(true, Step::Err));

/// The connection ended for a reason other than a local drop (keepalive timeout, transport or
/// protocol error, peer's Close) and the source stays silent for ever: wind_down must not wait
/// for the peer - every pending operation still resolves.
fn f_c08_wd_silent_source() {
    use tokio::io::AsyncBufRead;
    let ep = endpoint(small_options(), KRng::fixed([1, 2, 3, 4]));
    let mut st = install_established(&ep, ID_A, kani::any());
    let mut open_rx = install_requested(&ep, ID_B);
    // ScriptWs default: at_end = Pending (silent), sink ready, close ok
    let Endpoint { mux, task, tx_msg_rx, dropped_flows_rx } = ep;
    let fut = task.wind_down(false, tx_msg_rx, dropped_flows_rx);
    let mut fut = core::mem::ManuallyDrop::new(fut);
    let mut done = false;
    let mut k = 0;
    while k < 3 && !done {
        done = poll_once(unsafe { Pin::new_unchecked(&mut *fut) }).is_ready();
        k += 1;
    }
    vassert!(done, "P:C08 after the connection failed the task keeps waiting for a silent peer: pending operations never resolve");
    vassert!(task.flows.read().len() == 0, "P:C08 flows survive the end of the connection");
    let w = counting_waker();
    let mut cx = Context::from_waker(&w);
    match Pin::new(&mut st).poll_fill_buf(&mut cx) {
        Poll::Ready(Ok(b)) => vassert!(b.is_empty(), "P:C08 no end-of-stream after the end of the connection"),
        _ => vfail!("P:C08 read blocks after the end of the connection"),
    }
    match open_rx.try_recv() {
        Ok(None) => {}
        _ => vfail!("P:C08 a pending stream request was not resolved at the end of the connection"),
    }
    kani::cover!(true, "silent source evaluated");
    core::mem::forget((st, open_rx, mux));
}
h!(c08_wd_silent_source, 8, f_c08_wd_silent_source());

/// After the task object is gone every API call reports Closed.
fn f_c08_api_after_end() {
    let ep = endpoint(small_options(), KRng::fixed([1, 2, 3, 4]));
    let Endpoint { mux, task, tx_msg_rx, dropped_flows_rx } = ep;
    core::mem::drop(tx_msg_rx);
    core::mem::drop(dropped_flows_rx);
    core::mem::drop(task);
    match now_or_never(mux.accept_stream_channel()) {
        Some(Err(Error::Closed)) => {}
        _ => vfail!("P:C08 accept did not report Closed after the connection ended"),
    }
    match now_or_never(mux.get_datagram()) {
        Some(Err(Error::Closed)) => {}
        _ => vfail!("P:C08 get_datagram did not report Closed after the connection ended"),
    }
    match now_or_never(mux.new_stream_channel(b"h", 1)) {
        Some(Err(Error::Closed)) => {}
        _ => vfail!("P:C08 a later stream request did not report Closed"),
    }
    match now_or_never(mux.send_datagram(Datagram { flow_id: 1, target_host: Bytes::new(), target_port: 1, data: Bytes::new() })) {
        Some(Err(Error::Closed)) => {}
        _ => vfail!("P:C08 a later send_datagram did not report Closed"),
    }
    kani::cover!(true, "api after end evaluated");
    core::mem::forget(mux);
}
h!(c08_api_after_end, 8, f_c08_api_after_end());

h!(c08_wind_down_peer_ended, 8, f_c08_wind_down(false, false, Step::Ok));
h!(c08_wind_down_local_drop, 8, f_c08_wind_down(true, false, Step::Ok));
h!(c08_wind_down_peer_ended_inflight, 8, f_c08_wind_down(false, true, Step::Ok));
h!(c08_wind_down_local_drop_inflight, 8, f_c08_wind_down(true, true, Step::Err));

/// A stream request made by the application while `wind_down` (after a non-local end) is in its
/// tail: either it is refused at once (the outbound queue is closed) or its slot is resolved by
/// the table drain - a request that was accepted (pending) must not keep its slot past the end of
/// the connection, because nobody would ever resolve it ("every pending and every later operation completes", seed C08b).  A late drop
/// notification gives `wind_down` a log site after the table was drained.
static mut WD_MUX: *const Multiplexor<KRng> = core::ptr::null();
static WD_REQ_STATE: core::sync::atomic::AtomicU8 = core::sync::atomic::AtomicU8::new(0);
fn act_open_request(_t: *const TTask, _n: u32) {
    let m = unsafe { &*WD_MUX };
    if m.flows.is_locked() {
        return;
    }
    static HOST: [u8; 1] = [b'h'];
    let fut = m.new_stream_channel(&HOST[..], 80);
    let mut fut = core::mem::ManuallyDrop::new(fut);
    let p = poll_once(unsafe { Pin::new_unchecked(&mut *fut) });
    WD_REQ_STATE.store(if p.is_ready() { 1 } else { 2 }, Ordering::Relaxed);
    core::mem::forget(p);
}
fn f_c08_wd_request_in_tail(k: usize) {
    let ep = endpoint(small_options(), KRng::fixed([ID_C, 2, 3, 4]));
    ep.mux.dropped_flows_tx.send(ID_B).ok();
    script_end(&ep, Step::Ok);
    let Endpoint { mux, task, tx_msg_rx, dropped_flows_rx } = ep;
    unsafe {
        WD_MUX = &mux as *const _;
    }
    WD_REQ_STATE.store(0, Ordering::Relaxed);
    *SCHED_TARGET.lock().unwrap() = Some(SchedTarget { data: core::ptr::null(), kind: 2, n: 0, task: &task as *const TTask, task_fn: Some(act_open_request), stream: core::ptr::null_mut(), writer_fn: None });
    SCHED_FIRE_AT.store(k, Ordering::Relaxed);
    tracing::sched::set_hook(verif_sched_point);
    tracing::sched::arm();
    let r = now_or_never(task.wind_down(false, tx_msg_rx, dropped_flows_rx));
    tracing::sched::disarm();
    let st = WD_REQ_STATE.load(Ordering::Relaxed);
    vassert!(r.is_some(), "P:C08 wind-down blocks although the transport ended");
    // (a request that is refused at once may leave its slot behind in the dead table: harmless)
    vassert!(!(st == 2 && task.flows.read().len() != 0), "P:C08 a stream request made while the connection was winding down is left pending for ever (it was accepted, and its slot survives the end of the connection)");
    kani::cover!(st == 1, "?request refused at once");
    kani::cover!(st == 2, "?request pending when made, resolved by the drain");
    kani::cover!(true, "wind-down with a concurrent request evaluated");
    *SCHED_TARGET.lock().unwrap() = None;
    core::mem::forget((mux, r, task));
}
h!(c08_wd_request_in_tail_k0, 8, f_c08_wd_request_in_tail(0));
h!(c08_wd_request_in_tail_k1, 8, f_c08_wd_request_in_tail(1));
h!(c08_wd_request_in_tail_k2, 8, f_c08_wd_request_in_tail(2));


/// An invalid (non-frame) message ends the connection with an error at once, also when the peer
/// then stays silent: the connection task must not wait for the peer to end the source (seed
/// C10d: wind_down was asked to behave as for a local drop).  The whole `Task::start` future.
fn f_c08_start_invalid_message() {
    let ep = endpoint(small_options(), KRng::fixed([1, 2, 3, 4]));
    let mut open_rx = install_requested(&ep, ID_B);
    static BAD: [u8; 5] = [0xff, 0, 0, 0, 7];
    ep.task.ws.lock().push_in(Message::Binary(Bytes::from_static(&BAD)));
    let Endpoint { mux, task, tx_msg_rx, dropped_flows_rx } = ep;
    let fut = task.start(dropped_flows_rx, tx_msg_rx);
    let mut fut = core::mem::ManuallyDrop::new(fut);
    match poll_once(unsafe { Pin::new_unchecked(&mut *fut) }) {
        Poll::Ready(r) => {
            vassert!(matches!(r, Err(Error::InvalidFrame(_))), "P:C10 an invalid message did not end the connection with an InvalidFrame error");
            core::mem::forget(r);
        }
        Poll::Pending => vfail!("P:C10 after an invalid message the connection task waits for the silent peer instead of ending: pending operations never observe the error"),
    }
    match open_rx.try_recv() {
        Ok(None) => {}
        _ => vfail!("P:C08 a pending stream request was not resolved after the connection ended with an error"),
    }
    kani::cover!(true, "invalid message evaluated");
    core::mem::forget((mux, open_rx));
}
h!(c08_start_invalid_message, 8, f_c08_start_invalid_message());

/// Keepalive expires on a transport that stays silent (never yields a message, never ends):
/// the connection task must complete with KeepaliveTimeout instead of waiting for the peer.
fn f_c08_keepalive_on_silent_transport() {
    let ep = endpoint(ka_options(1, 1), KRng::fixed([1, 2, 3, 4]));
    let mut open_rx = install_requested(&ep, ID_B);
    let Endpoint { mux, task, tx_msg_rx, dropped_flows_rx } = ep;
    // the transport: sink always ready, source silent forever (ScriptWs default at_end = Pending)
    let fut = task.start(dropped_flows_rx, tx_msg_rx);
    let mut fut = core::mem::ManuallyDrop::new(fut);
    let mut k = 0;
    let mut done = false;
    while k < 4 && !done {
        match poll_once(unsafe { Pin::new_unchecked(&mut *fut) }) {
            Poll::Ready(r) => {
                vassert!(matches!(r, Err(Error::KeepaliveTimeout)), "P:C16 the connection ended with something other than KeepaliveTimeout");
                vassert!(vclock::now_ms() >= 2000, "P:C16 keepalive timeout before T elapsed");
                done = true;
                core::mem::forget(r);
            }
            Poll::Pending => {
                vclock::advance_to(vclock::now_ms() + 1000);
            }
        }
        k += 1;
    }
    vassert!(done, "P:C08 after the keepalive expired the connection task keeps waiting for the silent peer: pending calls never fail");
    match open_rx.try_recv() {
        Ok(None) => {}
        _ => vfail!("P:C08 a pending stream request was not resolved after the keepalive timeout"),
    }
    kani::cover!(true, "silent transport evaluated");
    core::mem::forget((mux, open_rx));
}
h!(c08_keepalive_silent_transport, 8, f_c08_keepalive_on_silent_transport());
