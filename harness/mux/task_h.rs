//! In-crate harnesses that need the private items of `task.rs` (`process_frame`,
//! `close_flow`, `new_stream_shared`, ...).  Mounted as a child module of `task.rs` in the
//! scratch copy, under cfg(kani) only.
#![allow(unused, clippy::all, clippy::pedantic, clippy::nursery, missing_docs)]
extern crate std;
use super::*;
use crate::frame::{BindType, OpCode};
use crate::verif_common::*;
use crate::config::Options;
use alloc::vec::Vec;
use core::sync::atomic::Ordering;
use tokio::sync::oneshot;

// Flow ids used by the harnesses.  `VERIF_SEED` rotates them (they are don't-care constants).
const fn seed() -> u32 {
    let s = match option_env!("VERIF_SEED") {
        Some(s) => s.as_bytes(),
        None => b"0",
    };
    let mut v: u32 = 0;
    let mut i = 0;
    while i < s.len() {
        if s[i] >= b'0' && s[i] <= b'9' {
            v = v.wrapping_mul(10).wrapping_add((s[i] - b'0') as u32);
        }
        i += 1;
    }
    v
}
pub const ID_A: u32 = 5 + (seed() % 7) * 0x0101_0001;
pub const ID_B: u32 = 0x8000_0009 ^ ((seed() % 5) << 8);
pub const ID_C: u32 = 0x0000_1234 + (seed() % 3);

// ---------------------------------------------------------------------------------------
// Pre-state builders
// ---------------------------------------------------------------------------------------
/// Install an Established slot under `id` and return the application's end.
pub fn install_established(ep: &Endpoint, id: u32, peer_rwnd: u32) -> MuxStream {
    let (stream, data) = ep.task.new_stream_shared(id, peer_rwnd, Bytes::new(), 0);
    let old = ep.task.flows.write().insert(id, FlowSlot::Established(data));
    core::mem::forget(old);
    stream
}
pub fn install_requested(ep: &Endpoint, id: u32) -> oneshot::Receiver<Option<MuxStream>> {
    let (tx, rx) = oneshot::channel();
    let old = ep.task.flows.write().insert(id, FlowSlot::Requested(tx));
    core::mem::forget(old);
    rx
}
pub fn install_bind_requested(ep: &Endpoint, id: u32) -> oneshot::Receiver<bool> {
    let (tx, rx) = oneshot::channel();
    let old = ep.task.flows.write().insert(id, FlowSlot::BindRequested(tx));
    core::mem::forget(old);
    rx
}
/// Queue one inbound frame of `len` symbolic bytes on an established flow (through the real
/// dispatch path).
pub fn queue_inbound(ep: &Endpoint, id: u32, data: &[u8]) -> bool {
    let g = ep.task.flows.read();
    let r = match g.get(&id) {
        Some(slot) => matches!(slot.dispatch(Bytes::copy_from_slice(data)), Some(Ok(()))),
        None => false,
    };
    r
}
/// Everything the connection task and the application can observe about one flow.
#[derive(Clone, Copy, PartialEq, Eq, Debug)]
pub struct Snap {
    pub present: bool,
    pub kind: u8, // 0 requested, 1 established, 2 bind-requested
    pub credit: u32,
    pub finish_sent: bool,
    pub read_open: bool,
    pub queued: usize,
}
pub fn snap(ep: &Endpoint, id: u32, stream: Option<&MuxStream>) -> Snap {
    let g = ep.task.flows.read();
    let mut s = Snap { present: false, kind: 9, credit: 0, finish_sent: false, read_open: false, queued: 0 };
    match g.get(&id) {
        None => {}
        Some(FlowSlot::Requested(_)) => {
            s.present = true;
            s.kind = 0;
        }
        Some(FlowSlot::BindRequested(_)) => {
            s.present = true;
            s.kind = 2;
        }
        Some(FlowSlot::Established(d)) => {
            s.present = true;
            s.kind = 1;
            s.credit = d.psh_send_remaining.load(Ordering::Relaxed);
            s.finish_sent = d.finish_sent.load(Ordering::Relaxed);
            s.read_open = d.sender.is_some();
        }
    }
    if let Some(st) = stream {
        s.queued = st.rx_frame_rx.len();
    }
    s
}
/// A bystander flow in an arbitrary (bounded) state: symbolic credit and closed flags, one
/// queued frame with symbolic contents.
pub struct Bystander {
    pub stream: MuxStream,
    pub before: Snap,
    pub byte: u8,
}
pub fn install_bystander(ep: &Endpoint) -> Bystander {
    let stream = install_established(ep, ID_B, kani::any());
    let byte: u8 = kani::any();
    let ok = queue_inbound(ep, ID_B, &[byte]);
    assert!(ok);
    if kani::any() {
        stream.finish_sent.store(true, Ordering::Relaxed);
    }
    if kani::any() {
        let mut g = ep.task.flows.write();
        if let Some(FlowSlot::Established(d)) = g.get_mut(&ID_B) {
            core::mem::forget(d.disallow_read());
        }
    }
    let before = snap(ep, ID_B, Some(&stream));
    Bystander { stream, before, byte }
}
pub fn check_bystander(ep: &Endpoint, by: &mut Bystander) {
    let after = snap(ep, ID_B, Some(&by.stream));
    assert!(after == by.before, "P:C10 a frame addressed to another flow changed the state of a bystander stream");
    match by.stream.rx_frame_rx.try_recv() {
        Ok(b) => assert!(b.len() == 1 && b[0] == by.byte, "P:C10 a frame addressed to another flow changed the data queued on a bystander stream"),
        Err(_) => panic!("P:C10 a frame addressed to another flow removed data queued on a bystander stream"),
    }
}
fn forget_ep(ep: Endpoint) {
    core::mem::forget(ep);
}

// ---------------------------------------------------------------------------------------
// C10: reaction table.  One step of `process_frame` from every slot state of the addressed
// flow, with a bystander in an arbitrary state.
// ---------------------------------------------------------------------------------------
#[derive(Clone, Copy, PartialEq, Eq)]
pub enum Slot {
    Absent,
    Requested,
    BindRequested,
    /// established, inbound queue has room (rwnd 2, one frame queued)
    EstRoom,
    /// established, inbound queue full
    EstFull,
    /// established, peer already sent Finish
    EstReadClosed,
}
#[derive(Clone, Copy, PartialEq, Eq)]
pub enum Fk {
    Connect,
    Ack,
    Reset,
    Finish,
    Push,
    Bind,
    Datagram,
}
pub enum Handle {
    None,
    Req(oneshot::Receiver<Option<MuxStream>>),
    Bind(oneshot::Receiver<bool>),
    Est(MuxStream),
}
pub fn install(ep: &Endpoint, id: u32, slot: Slot) -> Handle {
    match slot {
        Slot::Absent => Handle::None,
        Slot::Requested => Handle::Req(install_requested(ep, id)),
        Slot::BindRequested => Handle::Bind(install_bind_requested(ep, id)),
        Slot::EstRoom | Slot::EstFull | Slot::EstReadClosed => {
            let st = install_established(ep, id, kani::any());
            let ok = queue_inbound(ep, id, &[kani::any()]);
            assert!(ok);
            if slot == Slot::EstFull {
                let ok = queue_inbound(ep, id, &[kani::any()]);
                assert!(ok);
            }
            if slot == Slot::EstReadClosed {
                let mut g = ep.task.flows.write();
                if let Some(FlowSlot::Established(d)) = g.get_mut(&id) {
                    core::mem::forget(d.disallow_read());
                }
            }
            if kani::any() {
                st.finish_sent.store(true, Ordering::Relaxed);
            }
            Handle::Est(st)
        }
    }
}
/// Frame of the given kind addressed to `id`, every other field symbolic.
pub fn any_frame(fk: Fk, id: u32, host: &'static [u8; 1], data: &'static [u8; 2]) -> Frame<'static> {
    match fk {
        Fk::Connect => Frame::new_connect(&host[..], kani::any(), id, kani::any()),
        Fk::Ack => Frame::new_acknowledge(id, kani::any()),
        Fk::Reset => Frame::new_reset(id),
        Fk::Finish => Frame::new_finish(id),
        Fk::Push => Frame::new_push_owned(id, Bytes::from_static(&data[..])),
        Fk::Bind => Frame::new_bind(id, if kani::any() { BindType::Stream } else { BindType::Datagram }, &host[..], kani::any()),
        Fk::Datagram => Frame::new_datagram_owned(id, Bytes::from_static(&host[..]), kani::any(), Bytes::from_static(&data[..])),
    }
}
fn leak1(v: [u8; 1]) -> &'static [u8; 1] {
    alloc::boxed::Box::leak(alloc::boxed::Box::new(v))
}
fn leak2(v: [u8; 2]) -> &'static [u8; 2] {
    alloc::boxed::Box::leak(alloc::boxed::Box::new(v))
}

/// One frame of kind `fk` for flow `id` (`zero_id`: the frame uses flow id 0 instead) arrives
/// while the addressed slot is in state `slot`; `bind_on`: this endpoint accepts binds.
pub fn react(slot: Slot, fk: Fk, bind_on: bool, zero_id: bool) {
    react_x(slot, fk, bind_on, zero_id, false)
}
/// `direct`: for Connect only - call `con_recv_new_stream` with the frame's fields instead of
/// going through `process_frame`.  (`process_frame(Connect)` awaits a nested coroutine whose
/// state the symbolic execution does not fold: 600k steps / 17 GB; that path is kept in the
/// thorough tier, this one runs in the quick tier.)
pub fn react_x(slot: Slot, fk: Fk, bind_on: bool, zero_id: bool, direct: bool) {
    let opts = if bind_on { small_options().bind_buffer_size(2) } else { small_options() };
    let mut ep = endpoint(opts, KRng::fixed([1, 2, 3, 4]));
    let id = if zero_id { 0 } else { ID_A };
    let mut by = install_bystander(&ep);
    let handle = install(&ep, id, slot);
    let before = snap(&ep, id, match &handle { Handle::Est(s) => Some(s), _ => None });
    let frame = any_frame(fk, id, leak1(kani::any()), leak2(kani::any()));
    let peer_val: u32 = match &frame.payload {
        Payload::Acknowledge(n) => *n,
        Payload::Connect(c) => c.rwnd,
        _ => 0,
    };
    // setup noise must not count as output
    assert!(pop_out(&mut ep.tx_msg_rx) == Out::Nothing);
    let r = if direct {
        match frame.payload {
            Payload::Connect(ConnectPayload { rwnd, target_host, target_port }) => {
                now_or_never(ep.task.con_recv_new_stream(id, target_host.into_static(), target_port, rwnd))
            }
            _ => panic!("harness: direct mode is for Connect only"),
        }
    } else {
        now_or_never(ep.task.process_frame(frame, false))
    };
    match &r {
        Some(Ok(())) => {}
        Some(Err(_)) => panic!("P:C10 a well-formed frame made process_frame fail (connection would be torn down)"),
        None => panic!("P:C10 process_frame blocked on a well-formed frame"),
    }
    core::mem::forget(r);
    let o1 = pop_out(&mut ep.tx_msg_rx);
    let o2 = pop_out(&mut ep.tx_msg_rx);
    let after = snap(&ep, id, match &handle { Handle::Est(s) => Some(s), _ => None });
    let rst = Out::Frame { op: OpCode::Reset, id };
    // -- generic rules ----------------------------------------------------------------
    assert!(o2 == Out::Nothing, "P:C10 more than one reply to a single frame");
    if let Out::Frame { id: oid, .. } = o1 {
        assert!(oid == id, "P:C10 reply addressed to a flow other than the offending one");
    }
    assert!(o1 != Out::Undecodable, "P:C10 reply is not a decodable frame");
    if fk == Fk::Reset {
        assert!(o1 == Out::Nothing, "P:C10 a Reset was answered (never reply to a Reset)");
    }
    // -- the table ------------------------------------------------------------------------
    match (fk, slot) {
        (Fk::Connect, Slot::Absent) if !zero_id => {
            assert!(o1 == Out::Frame { op: OpCode::Acknowledge, id }, "P:C10 Connect on a free id was not acknowledged");
            assert!(after.present && after.kind == 1 && after.credit == peer_val, "P:C10 accepted Connect did not establish the flow with the peer's window as credit");
        }
        (Fk::Connect, _) => {
            assert!(o1 == rst, "P:C10 Connect with id 0 or an id in use was not answered with Reset");
            assert!(after == before, "P:C10 rejected Connect disturbed the existing flow");
        }
        (Fk::Ack, Slot::Absent) | (Fk::Ack, Slot::BindRequested) => {
            assert!(o1 == rst, "P:C10 Acknowledge on an unknown flow / pending bind was not answered with Reset");
            assert!(after == before, "P:C10 bogus Acknowledge changed the slot");
        }
        (Fk::Ack, Slot::Requested) => {
            assert!(o1 == Out::Nothing, "P:C10 Acknowledge of our Connect was answered");
            assert!(after.present && after.kind == 1 && after.credit == peer_val, "P:C10 Acknowledge of our Connect did not establish the flow with the peer's window as credit");
        }
        (Fk::Ack, _) => {
            assert!(o1 == Out::Nothing, "P:C10 Acknowledge on an established flow was answered");
            assert!(after.credit == before.credit.wrapping_add(peer_val) && after.finish_sent == before.finish_sent && after.read_open == before.read_open && after.queued == before.queued,
                "P:C10 Acknowledge did not add exactly its count to the send credit");
        }
        (Fk::Reset, _) => {
            assert!(!after.present, "P:C10 Reset did not release the flow");
        }
        (Fk::Finish, Slot::Absent) => {
            assert!(o1 == rst, "P:C10 Finish on an unknown flow was not answered with Reset");
        }
        (Fk::Finish, Slot::Requested) => {
            assert!(o1 == rst && !after.present, "P:C10 Finish in reply to Connect must reset and release the flow");
        }
        (Fk::Finish, Slot::BindRequested) => {
            assert!(o1 == Out::Nothing && !after.present, "P:C10 Finish on a pending bind must release it without a reply");
        }
        (Fk::Finish, _) => {
            assert!(o1 == Out::Nothing, "P:C10 Finish on an established flow was answered");
            assert!(after.present && !after.read_open && after.credit == before.credit && after.finish_sent == before.finish_sent && after.queued == before.queued,
                "P:C10 Finish must close only the inbound direction");
        }
        (Fk::Push, Slot::EstRoom) => {
            assert!(o1 == Out::Nothing && after.queued == before.queued + 1 && after.credit == before.credit && after.present, "P:C10 Push within the window was not queued on its flow");
        }
        (Fk::Push, Slot::EstFull) => {
            // window overrun: only the offending flow is reset (no Reset if we already finished)
            assert!(!after.present, "P:C10 window overrun did not close the offending flow");
            assert!(o1 == rst || (before.finish_sent && o1 == Out::Nothing), "P:C10 window overrun was not answered with a Reset of the offending flow");
        }
        (Fk::Push, _) => {
            // absent, requested, bind-requested, or after the peer's own Finish
            assert!(o1 == rst, "P:C10 Push on a flow that cannot take data was not answered with Reset");
            assert!(after == before, "P:C10 bogus Push changed the slot");
        }
        (Fk::Bind, _) => {
            if bind_on {
                assert!(o1 == Out::Nothing, "P:C10 Bind request was answered by the connection task although binds are enabled");
            } else {
                assert!(o1 == rst, "P:C10 Bind request was not rejected with Reset although binds are disabled");
            }
            assert!(after == before, "P:C10 Bind request changed a stream slot");
        }
        (Fk::Datagram, _) => {
            assert!(o1 == Out::Nothing, "P:C10 Datagram was answered");
            assert!(after == before, "P:C10 Datagram changed a stream slot");
        }
    }
    check_bystander(&ep, &mut by);
    kani::cover!(true, "reaction evaluated");
    core::mem::forget(handle);
    core::mem::forget(by);
    forget_ep(ep);
}

macro_rules! h {
    ($name:ident, $unwind:literal, $body:expr) => {
        #[kani::proof]
        #[kani::unwind($unwind)]
        fn $name() {
            $body
        }
    };
}
h!(c10_conrecv_absent, 8, react_x(Slot::Absent, Fk::Connect, false, false, true));
h!(c10_conrecv_zero, 8, react_x(Slot::Absent, Fk::Connect, false, true, true));
h!(c10_conrecv_requested, 8, react_x(Slot::Requested, Fk::Connect, false, false, true));
h!(c10_conrecv_bindreq, 8, react_x(Slot::BindRequested, Fk::Connect, false, false, true));
h!(c10_conrecv_est, 8, react_x(Slot::EstRoom, Fk::Connect, false, false, true));
h!(c10_connect_absent, 8, react(Slot::Absent, Fk::Connect, false, false));
h!(c10_connect_zero, 8, react(Slot::Absent, Fk::Connect, false, true));
h!(c10_connect_requested, 8, react(Slot::Requested, Fk::Connect, false, false));
h!(c10_connect_est, 8, react(Slot::EstRoom, Fk::Connect, false, false));
h!(c10_ack_absent, 8, react(Slot::Absent, Fk::Ack, false, false));
h!(c10_ack_requested, 8, react(Slot::Requested, Fk::Ack, false, false));
h!(c10_ack_bindreq, 8, react(Slot::BindRequested, Fk::Ack, false, false));
h!(c10_ack_est, 8, react(Slot::EstRoom, Fk::Ack, false, false));
h!(c10_ack_est_readclosed, 8, react(Slot::EstReadClosed, Fk::Ack, false, false));
h!(c10_reset_absent, 8, react(Slot::Absent, Fk::Reset, false, false));
h!(c10_reset_requested, 8, react(Slot::Requested, Fk::Reset, false, false));
h!(c10_reset_bindreq, 8, react(Slot::BindRequested, Fk::Reset, false, false));
h!(c10_reset_est, 8, react(Slot::EstRoom, Fk::Reset, false, false));
h!(c10_reset_est_full, 8, react(Slot::EstFull, Fk::Reset, false, false));
h!(c10_finish_absent, 8, react(Slot::Absent, Fk::Finish, false, false));
h!(c10_finish_requested, 8, react(Slot::Requested, Fk::Finish, false, false));
h!(c10_finish_bindreq, 8, react(Slot::BindRequested, Fk::Finish, false, false));
h!(c10_finish_est, 8, react(Slot::EstRoom, Fk::Finish, false, false));
h!(c10_finish_est_readclosed, 8, react(Slot::EstReadClosed, Fk::Finish, false, false));
h!(c10_push_absent, 8, react(Slot::Absent, Fk::Push, false, false));
h!(c10_push_zero, 8, react(Slot::Absent, Fk::Push, false, true));
h!(c10_push_requested, 8, react(Slot::Requested, Fk::Push, false, false));
h!(c10_push_bindreq, 8, react(Slot::BindRequested, Fk::Push, false, false));
h!(c10_push_est_room, 8, react(Slot::EstRoom, Fk::Push, false, false));
h!(c10_push_est_full, 8, react(Slot::EstFull, Fk::Push, false, false));
h!(c10_push_est_readclosed, 8, react(Slot::EstReadClosed, Fk::Push, false, false));
h!(c10_bind_disabled_absent, 8, react(Slot::Absent, Fk::Bind, false, false));
h!(c10_bind_disabled_est, 8, react(Slot::EstRoom, Fk::Bind, false, false));
h!(c10_bind_enabled_absent, 8, react(Slot::Absent, Fk::Bind, true, false));
h!(c10_bind_enabled_zero, 8, react(Slot::Absent, Fk::Bind, true, true));
h!(c10_datagram_absent, 8, react(Slot::Absent, Fk::Datagram, false, false));
h!(c10_datagram_est, 8, react(Slot::EstRoom, Fk::Datagram, false, false));
h!(c10_datagram_zero, 8, react(Slot::Absent, Fk::Datagram, false, true));

