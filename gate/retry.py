#!/usr/bin/env python3
"""C19, second part — the client's reconnect loop (`penguin/src/client/mod.rs`, crate
rusty-penguin: not compilable by Kani), decided by source-to-SMT translation.

The arithmetic of the back-off generator is decided by the Kani instances of C19
(`penguin_mux::timing::Backoff`: advance() = k-th delay / None after max_count, reset()).
This tool decides how the client USES it:

 1. reads the CURRENT client/mod.rs and extracts, over a deliberately tiny grammar, the retry loop
    inside `main_future`: where `backoff.reset()` is attached (to the error of `on_connected`
    inside the `and_then` closure = "a connection had been established", to every error, or
    nowhere), the order and shape of the `match r` arms (quit, non-retryable -> return,
    retry -> advance / give up with MaxRetryCountReached / sleep for the value advance()
    returned), and the Backoff::new argument mapping;
 2. encodes N loop iterations as an SMT problem: the event of every iteration (orderly quit,
    handshake failure retryable / fatal, connection established then lost retryable / fatal)
    and max_retry_count are symbolic; the implementation's trace (delay exponent used, or the way
    it ends) is computed from the extracted structure and Backoff's contract, the specification's
    from the property text; asks z3 AND cvc5 whether they can differ;
 3. on `sat`, turns the model into a script, replays it against the REAL loop text (the
    extracted block compiled by rustc inside the crate's test module, with only its three
    environment calls - handshake, on_connected, the interruptible sleep - replaced by scripted
    stubs) and only then reports a violation.

A construct outside the grammar => INCONCLUSIVE (exit 2), never a violation.
"""
from __future__ import annotations

import json
import os
import re
import shutil
import subprocess
import sys
import time
from pathlib import Path

VERIF = Path(__file__).resolve().parent.parent
REPO = Path(os.environ.get("VERIF_REPO", "/repo"))
# evidence directory (overridden when a check is pointed at a seeded worktree, so that the committed evidence is not overwritten)
EVID = Path(os.environ.get("VERIF_EVIDENCE_DIR", str(VERIF / "evidence")))
SRC = REPO / "penguin" / "src" / "client" / "mod.rs"
N_STEPS = int(os.environ.get("VERIF_C19_STEPS", "6"))
MAXC = 4          # max_retry_count ranges over 0..MAXC (0 = never give up)

EVENTS = ["OK", "HS_RETRY", "HS_FATAL", "CONN_RETRY", "CONN_FATAL"]


class Inconclusive(Exception):
    pass


def strip_comments(s: str) -> str:
    return re.sub(r"//[^\n]*", "", s)


def balanced(src: str, i: int, open_c="{", close_c="}") -> int:
    """index of the bracket matching src[i]"""
    d = 0
    j = i
    while j < len(src):
        if src[j] == open_c:
            d += 1
        elif src[j] == close_c:
            d -= 1
            if d == 0:
                return j
        j += 1
    raise Inconclusive("unbalanced brackets")


def extract(src_text: str):
    src = src_text
    m = re.search(r"let\s+main_future\s*=\s*async\s+move\s*\{", src)
    if not m:
        raise Inconclusive("`let main_future = async move {` not found")
    i = m.end() - 1
    j = balanced(src, i)
    block_raw = src[i:j + 1]
    block = strip_comments(block_raw)
    facts = {}
    # -- Backoff::new(initial, max, mult, max_count)
    mb = re.search(r"Backoff::new\(\s*Duration::from_millis\((\d+)\)\s*,\s*Duration::from_millis\(args\.max_retry_interval\)\s*,\s*(\d+)\s*,\s*args\.max_retry_count\s*,?\s*\)", block)
    if not mb:
        raise Inconclusive("Backoff::new(..) call outside the grammar (initial ms, from_millis(args.max_retry_interval), mult, args.max_retry_count)")
    facts["initial_ms"], facts["mult"] = int(mb.group(1)), int(mb.group(2))
    # -- the loop
    ml = re.search(r"\bloop\s*\{", block)
    if not ml:
        raise Inconclusive("retry loop not found")
    lb = block[ml.end() - 1: balanced(block, ml.end() - 1) + 1]
    if re.search(r"\bloop\s*\{|\bwhile\b|\bfor\b", lb):
        raise Inconclusive("nested loops inside the retry loop")
    # let r = ws_connect::handshake(args).and_then(|ws_stream| { on_connected(...)<.inspect_err(reset)>? })<.inspect_err(reset)>?.await;
    mr = re.search(r"let\s+r\s*=\s*ws_connect::handshake\(args\)\s*\.and_then\(\s*\|ws_stream\|\s*\{", lb)
    if not mr:
        raise Inconclusive("`let r = ws_connect::handshake(args).and_then(|ws_stream| {` not found")
    ci = mr.end() - 1
    cj = balanced(lb, ci)
    closure = lb[ci + 1:cj]
    after = lb[cj + 1:]
    ma = re.match(r"\s*\)\s*(?P<outer>(?:\.inspect_err\(\s*\|_\|\s*backoff\.reset\(\)\s*\)\s*)?)\.await\s*;", after)
    if not ma:
        raise Inconclusive("tail of the `let r = …` expression outside the grammar")
    mc = re.fullmatch(r"\s*on_connected\((?P<args>[^()]*(?:\([^()]*\)[^()]*)*)\)\s*(?P<inner>(?:\.inspect_err\(\s*\|_\|\s*backoff\.reset\(\)\s*\)\s*)?)", closure)
    if not mc:
        raise Inconclusive("and_then closure outside the grammar (expected on_connected(..)[.inspect_err(|_| backoff.reset())])")
    inner, outer = bool(mc.group("inner").strip()), bool(ma.group("outer").strip())
    facts["reset_on"] = "any_error" if outer else ("connected_error" if inner else "never")
    n_reset = len(re.findall(r"backoff\.reset\(\)", lb))
    if n_reset != int(inner) + int(outer):
        raise Inconclusive("backoff.reset() called somewhere outside the grammar")
    rest = after[ma.end():]
    mm = re.match(r"\s*match\s+r\s*\{", rest)
    if not mm:
        raise Inconclusive("`match r {` does not follow the connection attempt")
    mi = mm.end() - 1
    mj = balanced(rest, mi)
    if rest[mj + 1:].strip() not in ("}",):
        raise Inconclusive("statements after `match r` inside the loop")
    arms_txt = rest[mi + 1:mj]
    # split arms at top level
    arms = []
    pos = 0
    arm_re = re.compile(r"\s*(?P<pat>[^=]+?)\s*=>\s*")
    while pos < len(arms_txt) and arms_txt[pos:].strip():
        m2 = arm_re.match(arms_txt, pos)
        if not m2:
            raise Inconclusive(f"match arm outside the grammar near {arms_txt[pos:pos+60]!r}")
        k = m2.end()
        if arms_txt[k] == "{":
            e = balanced(arms_txt, k)
            body = arms_txt[k + 1:e]
            pos = e + 1
        else:
            e = arms_txt.index(",", k)
            body = arms_txt[k:e]
            pos = e
        if pos < len(arms_txt) and arms_txt[pos:pos + 1] == ",":
            pos += 1
        arms.append((" ".join(m2.group("pat").split()), body.strip()))
    seq = []
    for pat, body in arms:
        b = " ".join(body.split())
        if pat == "Ok(())":
            if b != "return Ok(())":
                raise Inconclusive(f"Ok arm outside the grammar: {b!r}")
            seq.append("quit")
        elif pat == "Err(Error::Cancelled)":
            if not b.startswith("panic!("):
                raise Inconclusive("Cancelled arm outside the grammar")
            seq.append("cancelled")
        elif re.fullmatch(r"Err\(ref e\) if !e\.retryable\(\)", pat):
            if b != "return r":
                raise Inconclusive(f"non-retryable arm outside the grammar: {b!r}")
            seq.append("fatal_return")
        elif pat == "Err(e)":
            mg = re.search(r"let\s+Some\((\w+)\)\s*=\s*backoff\.advance\(\)\s*else\s*\{(.*?)\}\s*;", b)
            if not mg:
                raise Inconclusive("retry arm: `let Some(x) = backoff.advance() else {..};` not found")
            var, els = mg.group(1), mg.group(2)
            facts["giveup_returns_max_retry"] = bool(re.search(r"return\s+Err\(Error::MaxRetryCountReached\(Box::new\(e\)\)\)\s*;", els))
            if not facts["giveup_returns_max_retry"]:
                raise Inconclusive("give-up branch does not `return Err(Error::MaxRetryCountReached(Box::new(e)))`")
            tail = b[mg.end():]
            ms = re.search(r"if\s+time::timeout\(\s*(\w+)\s*,\s*tokio::signal::ctrl_c\(\)\s*\)\s*\.await\s*\.is_ok\(\)\s*\{\s*return\s+Err\(Error::Cancelled\)\s*;\s*\}", tail)
            if not ms:
                raise Inconclusive("retry arm: interruptible sleep outside the grammar")
            facts["sleep_uses_advance_value"] = (ms.group(1) == var)
            if not facts["sleep_uses_advance_value"]:
                raise Inconclusive(f"sleep duration is `{ms.group(1)}`, not the value returned by advance()")
            lead = b[:mg.start()] + tail[:ms.start()] + tail[ms.end():]
            lead = re.sub(r"(warn|info|debug|error|trace)!\([^;]*\)\s*;", "", lead).strip()
            if lead:
                raise Inconclusive(f"retry arm: statements outside the grammar: {lead[:80]!r}")
            if re.search(r"backoff\.advance\(\)", b[mg.end():]):
                raise Inconclusive("advance() called more than once per failure")
            seq.append("retry")
        else:
            raise Inconclusive(f"match arm pattern outside the grammar: {pat!r}")
    facts["arms"] = seq
    if seq.count("retry") != 1 or seq[-1] != "retry":
        raise Inconclusive("the retry arm must be the last arm")
    facts["fatal_checked_before_retry"] = "fatal_return" in seq
    return facts, block_raw


# ---------------------------------------------------------------------------------------------
def smt(facts) -> str:
    """impl vs spec over N_STEPS iterations.  Per step i: ev_i in 0..4 (EVENTS), state k (impl's
    Backoff count), c (spec's number of consecutive failures); outputs out_i: -1 not reached,
    0..: slept with delay exponent out_i, 100 quit Ok, 101 fatal error returned, 102 MaxRetry."""
    s = "(set-logic ALL)\n(declare-const maxc Int)\n(assert (and (>= maxc 0) (<= maxc %d)))\n" % MAXC
    for i in range(N_STEPS):
        s += f"(declare-const ev{i} Int)\n(assert (and (>= ev{i} 0) (<= ev{i} 4)))\n"

    def chain(prefix, reset_on, fatal_checked):
        t = f"(define-fun {prefix}k0 () Int 0)\n(define-fun {prefix}alive0 () Bool true)\n"
        for i in range(N_STEPS):
            ev = f"ev{i}"
            conn = f"(or (= {ev} 3) (= {ev} 4))"
            iserr = f"(not (= {ev} 0))"
            if reset_on == "connected_error":
                kr = f"(ite {conn} 0 {prefix}k{i})"
            elif reset_on == "any_error":
                kr = f"(ite {iserr} 0 {prefix}k{i})"
            else:
                kr = f"{prefix}k{i}"
            fatal = f"(or (= {ev} 2) (= {ev} 4))" if fatal_checked else "false"
            giveup = f"(and (not (= maxc 0)) (>= {kr} maxc))"
            t += f"(define-fun {prefix}out{i} () Int (ite (not {prefix}alive{i}) (- 1) (ite (= {ev} 0) 100 (ite {fatal} 101 (ite {giveup} 102 {kr})))))\n"
            t += f"(define-fun {prefix}alive{i+1} () Bool (and {prefix}alive{i} (< {prefix}out{i} 100)))\n"
            t += f"(define-fun {prefix}k{i+1} () Int (ite (and {prefix}alive{i} (< {prefix}out{i} 100)) (+ {kr} 1) {prefix}k{i}))\n"
        return t
    # implementation: from the extracted structure; specification: reset exactly after an
    # established connection, non-retryable errors end at once
    s += chain("i_", facts["reset_on"], facts["fatal_checked_before_retry"])
    s += chain("s_", "connected_error", True)
    s += "(assert (or " + " ".join(f"(not (= i_out{i} s_out{i}))" for i in range(N_STEPS)) + "))\n"
    return s


def run_solver(cmd, text):
    t0 = time.time()
    p = subprocess.run(cmd, input=text, capture_output=True, text=True, timeout=120)
    out = p.stdout + p.stderr
    if "(error" in out or "error" in p.stderr.lower():
        return "error", out, time.time() - t0
    first = out.strip().splitlines()[0].strip() if out.strip() else ""
    return first, out, time.time() - t0


def model_values(text):
    p = subprocess.run(["/usr/bin/z3", "-in", "-smt2"], input=text + "(check-sat)\n(get-value (maxc " + " ".join(f"ev{i}" for i in range(N_STEPS)) + "))\n",
                       capture_output=True, text=True, timeout=120)
    vals = dict((k, int(v.replace("(- ", "-").replace(")", "").replace(" ", ""))) for k, v in re.findall(r"\((maxc|ev\d+)\s+((?:\(- \d+\))|\d+)\)", p.stdout))
    return vals


def spec_trace(events, maxc):
    c, out = 0, []
    for e in events:
        if e == "OK":
            out.append(100)
            break
        if e in ("CONN_RETRY", "CONN_FATAL"):
            c = 0
        if e in ("HS_FATAL", "CONN_FATAL"):
            out.append(101)
            break
        if maxc != 0 and c >= maxc:
            out.append(102)
            break
        out.append(c)
        c += 1
    return out


REPLAY = r'''
    // ---- generated by /verif/gate/retry.py: the retry loop's own text with scripted stubs ----
    mod verif_c19 {
        use super::super::*;
        use std::cell::RefCell;
        use std::future::Future;
        use std::pin::Pin;
        use std::task::{Context, Poll};
        thread_local! {
            static SCRIPT: RefCell<Vec<u8>> = const { RefCell::new(Vec::new()) };
            static POS: RefCell<usize> = const { RefCell::new(0) };
            static LOG: RefCell<Vec<i64>> = const { RefCell::new(Vec::new()) };
        }
        fn cur() -> u8 { SCRIPT.with(|s| s.borrow().get(POS.with(|p| *p.borrow())).copied().unwrap_or(0)) }
        fn retry_err() -> Error { Error::HandshakeTimeout }
        fn fatal_err() -> Error { Error::TcpConnect(std::io::Error::from(std::io::ErrorKind::PermissionDenied)) }
        struct Ready<T>(Option<T>);
        impl<T: Unpin> Future for Ready<T> {
            type Output = T;
            fn poll(mut self: Pin<&mut Self>, _: &mut Context<'_>) -> Poll<T> { Poll::Ready(self.0.take().unwrap()) }
        }
        mod ws_connect {
            use super::*;
            // 0 OK, 1 HS_RETRY, 2 HS_FATAL, 3 CONN_RETRY, 4 CONN_FATAL
            pub fn handshake(_a: &'static Args) -> Ready<Result<(), Error>> {
                Ready(Some(match cur() { 1 => Err(retry_err()), 2 => Err(fatal_err()), _ => Ok(()) }))
            }
        }
        pub struct Args { pub max_retry_interval: u64, pub max_retry_count: u32 }
        pub struct Hr { pub udp_client_map: () }
        #[allow(clippy::too_many_arguments)]
        fn on_connected(_a: &'static Args, _ws: (), _s: &mut (), _f: &mut Option<StreamCommand>, _d: &mut (), _m: &()) -> Ready<Result<(), Error>> {
            let e = cur();
            POS.with(|p| *p.borrow_mut() += 1);
            Ready(Some(match e { 3 => Err(retry_err()), 4 => Err(fatal_err()), _ => Ok(()) }))
        }
        mod time {
            use super::*;
            pub fn timeout<F>(d: Duration, _f: F) -> Ready<Result<(), ()>> {
                LOG.with(|l| l.borrow_mut().push(i64::try_from(d.as_millis()).unwrap_or(i64::MAX)));
                Ready(Some(Err(())))
            }
        }
        fn verif_ctrl_c() {}
        #[::tokio::test]
        async fn verif_c19_replay() {
            static ARGS: Args = Args { max_retry_interval: @MAXMS@, max_retry_count: @MAXC@ };
            static HR: Hr = Hr { udp_client_map: () };
            let args: &'static Args = &ARGS;
            let hr: &'static Hr = &HR;
            SCRIPT.with(|s| *s.borrow_mut() = vec![@SCRIPT@]);
            let mut stream_command_rx = ();
            let mut datagram_rx = ();
            // handshake failures advance the script here (on_connected is not reached)
            let main_future = async move @BLOCK@;
            let res: Result<(), Error> = main_future.await;
            let log = LOG.with(|l| l.borrow().clone());
            let end: i64 = match &res { Ok(()) => 100, Err(Error::MaxRetryCountReached(_)) => 102, Err(Error::Cancelled) => 103, Err(_) => 101 };
            let expect_delays: Vec<i64> = vec![@DELAYS@];
            let expect_end: i64 = @END@;
            assert!(log == expect_delays && end == expect_end, "VERIF-C19 delays {log:?} end {end}, the property wants {expect_delays:?} end {expect_end}");
        }
    }
'''


def native_replay(block_raw, facts, events, maxc, scratch: Path):
    """the loop's real text against a scripted environment"""
    spec = spec_trace(events, maxc)
    max_ms = 1000
    delays = [min(facts["initial_ms"] * (facts["mult"] ** x), max_ms) for x in spec if x < 100]
    end = [x for x in spec if x >= 100]
    if not end:
        # the script ends while the loop still runs: finish it with an orderly quit
        events = events + ["OK"]
        end = [100]
    # handshake failures do not reach on_connected: advance the script inside the stub
    blk = block_raw.replace("tokio::signal::ctrl_c()", "verif_ctrl_c()")
    code = REPLAY.replace("@MAXMS@", str(max_ms)).replace("@MAXC@", str(maxc)).replace("@SCRIPT@", ", ".join(str(EVENTS.index(e)) for e in events)) \
        .replace("@DELAYS@", ", ".join(str(d) for d in delays)).replace("@END@", str(end[0])).replace("@BLOCK@", blk)
    # the handshake stub must consume the script entry when it fails
    code = code.replace("Ready(Some(match cur() { 1 => Err(retry_err()), 2 => Err(fatal_err()), _ => Ok(()) }))",
                        "{ let e = cur(); if e == 1 || e == 2 { POS.with(|p| *p.borrow_mut() += 1); } Ready(Some(match e { 1 => Err(retry_err()), 2 => Err(fatal_err()), _ => Ok(()) })) }")
    dst = scratch / "repo-c19"
    shutil.copytree(REPO, dst, ignore=shutil.ignore_patterns("target", ".git"))
    f = dst / "penguin" / "src" / "client" / "mod.rs"
    txt = f.read_text()
    m = re.search(r"#\[cfg\(test\)\]\s*mod\s+tests\s*\{", txt)
    if not m:
        return None, "no test module in client/mod.rs"
    i = txt.rstrip().rfind("}")
    f.write_text(txt[:i] + code + "}\n")
    env = dict(os.environ, CARGO_NET_OFFLINE="true", CARGO_TARGET_DIR=str(scratch / "target-c19"))
    p = subprocess.run(["cargo", "test", "-p", "rusty-penguin", "--lib", "--offline", "verif_c19_replay"], cwd=dst, env=env, capture_output=True, text=True, timeout=3000)
    out = p.stdout + p.stderr
    m = re.search(r"test result: (ok|FAILED)\. (\d+) passed; (\d+) failed", out)
    if not m or int(m.group(2)) + int(m.group(3)) == 0:
        return None, out[-1500:]
    msg = re.findall(r"VERIF-C19[^\n]*", out)
    return (m.group(1) == "FAILED"), (msg[0] if msg else out[-300:])


def main():
    tier = "quick"
    for i, a in enumerate(sys.argv):
        if a == "--tier":
            tier = sys.argv[i + 1]
    t0 = time.time()
    res = dict(part="client retry loop (source-to-SMT)", file=str(SRC), steps=N_STEPS, max_retry_count_range=[0, MAXC])
    rc = 0
    lines = []
    scratch = Path(os.environ.get("VERIF_SCRATCH", "/var/tmp")) / f"verif-C19r-{os.getpid()}"
    try:
        facts, block_raw = extract(SRC.read_text())
        res["extracted"] = facts
        q = smt(facts)
        r1, o1, t1 = run_solver(["/usr/bin/z3", "-in", "-smt2"], q + "(check-sat)\n")
        r2, o2, t2 = run_solver(["cvc5", "--lang", "smt2"], q + "(check-sat)\n")
        res["query"] = dict(name="implementation trace == specification trace for every event sequence", z3=r1, cvc5=r2, z3_s=round(t1, 3), cvc5_s=round(t2, 3))
        # vacuity witnesses: the give-up, the reset and the fatal exit are reachable in the encoding
        wit = {}
        for name, cond in (("give_up", "(or " + " ".join(f"(= s_out{i} 102)" for i in range(N_STEPS)) + ")"),
                           ("delay_after_reset", "(or " + " ".join(f"(and (= ev{i} 3) (= s_out{i} 0) (> s_k{i} 0))" for i in range(N_STEPS)) + ")"),
                           ("fatal_exit", "(or " + " ".join(f"(= s_out{i} 101)" for i in range(N_STEPS)) + ")")):
            qq = q.rsplit("(assert (or", 1)[0] + f"(assert {cond})\n(check-sat)\n"
            wit[name] = run_solver(["/usr/bin/z3", "-in", "-smt2"], qq)[0]
        res["witnesses"] = wit
        if r1 != r2 or r1 not in ("sat", "unsat"):
            rc = 2
            lines.append(f"INCONCLUSIVE property=C19 reason=solvers disagree or failed on the retry-loop query (z3={r1} cvc5={r2})")
        elif any(v != "sat" for v in wit.values()):
            rc = 2
            lines.append(f"INCONCLUSIVE property=C19 reason=vacuous retry-loop encoding: {wit}")
        elif r1 == "sat":
            vals = model_values(q)
            events = [EVENTS[vals.get(f"ev{i}", 0)] for i in range(N_STEPS)]
            maxc = vals.get("maxc", 0)
            res["counterexample"] = dict(events=events, max_retry_count=maxc, specification_trace=spec_trace(events, maxc))
            scratch.mkdir(parents=True, exist_ok=True)
            rep, detail = native_replay(block_raw, facts, events, maxc, scratch)
            res["native_replay"] = dict(reproduced=rep, detail=detail[:600])
            rp = EVID / "replay" / "C19-retry_loop.json"
            rp.parent.mkdir(parents=True, exist_ok=True)
            rp.write_text(json.dumps(res, indent=1))
            if rep:
                rc = 1
                lines.append(f"VIOLATION property=C19 replay={rp}")
                lines.append(f"  retry loop: events {events} with max_retry_count={maxc}: {detail[:300]}")
            else:
                rc = 2
                lines.append(f"INCONCLUSIVE property=C19 reason=retry-loop counterexample {events} (max_retry_count={maxc}) did not reproduce against the loop's text: {str(detail)[:300]}")
    except Inconclusive as e:
        rc = 2
        res["inconclusive"] = str(e)
        lines.append(f"INCONCLUSIVE property=C19 reason=client retry loop: {e}")
    finally:
        shutil.rmtree(scratch, ignore_errors=True)
    res["wall_s"] = round(time.time() - t0, 2)
    res["verdict"] = {0: "holds within the bounds", 1: "violation", 2: "inconclusive"}[rc]
    # merge into the evidence file written by the Kani part
    evp = EVID / "C19.json"
    try:
        ev = json.loads(evp.read_text())
        cov = ev.setdefault("coverage", {})
        cov["retry_loop"] = res
        if rc == 0:
            cov["obligations"] = cov.get("obligations", 0) + 1
            cov["discharged"] = cov.get("discharged", 0) + 1
            cov["evaluations"] = cov.get("evaluations", 0) + 1
            cov["distinct_nontrivial"] = cov.get("distinct_nontrivial", 0) + 1
        fe = cov.setdefault("functions_encoded", [])
        if "rusty_penguin::client::client_main_inner (retry loop, source-to-SMT)" not in fe:
            fe.append("rusty_penguin::client::client_main_inner (retry loop, source-to-SMT)")
        cov.setdefault("bounds", {})["retry_loop"] = f"{N_STEPS} consecutive loop iterations, every event sequence over {EVENTS}, max_retry_count 0..{MAXC}"
        ev["wall_s"] = round(ev.get("wall_s", 0) + res["wall_s"], 2)
        if rc == 1:
            ev["violations"] = ev.get("violations", 0) + 1
        evp.write_text(json.dumps(ev, indent=1))
    except Exception as e:  # noqa
        lines.append(f"INCONCLUSIVE property=C19 reason=cannot merge the retry-loop result into evidence/C19.json: {e!r}")
        rc = rc or 2
    lines.append(f"C19 [{tier}] retry loop: structure={res.get('extracted', {}).get('reset_on')} arms={res.get('extracted', {}).get('arms')} z3={res.get('query', {}).get('z3')} cvc5={res.get('query', {}).get('cvc5')} wall={res['wall_s']}s -> exit {rc}")
    print("\n".join(lines))
    return rc


if __name__ == "__main__":
    sys.exit(main())
