#!/usr/bin/env python3
"""C14 — the server's upgrade gate, decided by source-to-SMT translation.

`penguin/src/server/service.rs` (crate rusty-penguin) cannot be compiled by Kani (hyper, rustls,
aws-lc in its closure).  Its decision logic, however, is a straight-line sequence of guards over
header lookups.  This tool

 1. reads the CURRENT service.rs, extracts `State::call` (routing), `ws_handler` (the gate) and
    the `header_matches!` macro over a deliberately tiny grammar,
 2. translates the guards to SMT-LIB over boolean atoms (method = GET, header present, header
    value equal ignoring ASCII case / exactly, PSK configured, PSK equal, OnUpgrade present,
    path class, obfs),
 3. asks z3 AND cvc5 whether the implementation's "upgrade" decision can differ from the
    specification's, whether a non-upgrade exit can be anything but the unknown-path route,
    whether /health or /version can be served under obfs, and checks the 101 response builder,
 4. on `sat`, turns the model into a concrete request, replays it against the real `State`
    service (`cargo test -p rusty-penguin`) and only then reports a violation.

A construct outside the grammar => INCONCLUSIVE (exit 2), never a violation.
"""
from __future__ import annotations

import json
import os
import re
import shutil
import subprocess
import sys
import time
from pathlib import Path

VERIF = Path(__file__).resolve().parent.parent
REPO = Path(os.environ.get("VERIF_REPO", "/repo"))
# evidence directory (overridden when a check is pointed at a seeded worktree, so that the committed evidence is not overwritten)
EVID = Path(os.environ.get("VERIF_EVIDENCE_DIR", str(VERIF / "evidence")))
SRC = REPO / "penguin" / "src" / "server" / "service.rs"

HEADER_KEYS = {
    "header::CONNECTION": "connection", "header::UPGRADE": "upgrade", "header::SEC_WEBSOCKET_KEY": "key",
    "header::SEC_WEBSOCKET_PROTOCOL": "protocol", "header::SEC_WEBSOCKET_VERSION": "version", '"x-penguin-psk"': "psk",
}
REQUIRED_VALUES = {"connection": "upgrade", "upgrade": "websocket", "version": "13", "protocol": None}  # protocol: PROTOCOL_VERSION


class Inconclusive(Exception):
    pass


def find_fn(src: str, sig_re: str) -> str:
    m = re.search(sig_re, src)
    if not m:
        raise Inconclusive(f"function not found: /{sig_re}/")
    i = src.index("{", m.end() - 1) if src[m.end() - 1] != "{" else m.end() - 1
    depth, j = 0, i
    while j < len(src):
        if src[j] == "{":
            depth += 1
        elif src[j] == "}":
            depth -= 1
            if depth == 0:
                return src[i + 1:j]
        j += 1
    raise Inconclusive("unbalanced braces")


def strip_comments(s: str) -> str:
    return re.sub(r"//[^\n]*", "", s)


def split_top(s: str, seps: list[str]) -> list[str]:
    """Split on any of `seps` at parenthesis depth 0."""
    out, depth, cur, i = [], 0, "", 0
    while i < len(s):
        c = s[i]
        if c in "([{":
            depth += 1
        elif c in ")]}":
            depth -= 1
        hit = None
        if depth == 0:
            for sp in seps:
                if s.startswith(sp, i):
                    hit = sp
                    break
        if hit:
            out.append(cur)
            cur = ""
            i += len(hit)
            continue
        cur += c
        i += 1
    out.append(cur)
    return [x.strip() for x in out]


class Gate:
    def __init__(self, src: str):
        self.src = src
        self.statics = {}
        self.bind = {}        # local name -> header id
        self.pskvars = set()  # local names bound to the configured PSK value (let-chains)
        self.guards = []      # (smt condition, text)
        self.macro = None     # (cmp_atom_prefix, default_bool)
        self.notes = []
        self.opaque = {}      # header id -> name of a helper predicate outside the grammar

    # -- macro and statics ---------------------------------------------------------------
    def parse_statics(self):
        for m in re.finditer(r"static\s+(\w+):\s*HeaderValue\s*=\s*HeaderValue::from_static\(([^)]+)\);", self.src):
            v = m.group(2).strip()
            if v.startswith('"'):
                self.statics[m.group(1)] = v.strip('"')
            elif v == "PROTOCOL_VERSION":
                pv = (REPO / "penguin-mux" / "src" / "proto_version.rs").read_text()
                mm = re.search(r'PROTOCOL_VERSION:\s*&str\s*=\s*"([^"]+)"', pv)
                if not mm:
                    raise Inconclusive("PROTOCOL_VERSION not found")
                self.statics[m.group(1)] = mm.group(1)
            else:
                raise Inconclusive(f"static {m.group(1)} has an unknown initialiser {v}")

    def parse_macro(self):
        m = re.search(r"macro_rules!\s*header_matches\s*\{(.*?)\n\}", self.src, re.S)
        if not m:
            raise Inconclusive("header_matches! macro not found")
        body = strip_comments(m.group(1))
        mm = re.search(r"\$given\s*\.map\(\|v\|\s*(.+?)\)\s*\.unwrap_or_else\(\|\|\s*\{(.*?)\}\s*\)", body, re.S)
        if not mm:
            mm2 = re.search(r"\$given\s*\.map\(\|v\|\s*(.+?)\)\s*\.unwrap_or\(\s*(true|false)\s*\)", body, re.S)
            if not mm2:
                raise Inconclusive("header_matches! body outside the grammar")
            cmp_e, default = mm2.group(1), mm2.group(2)
        else:
            cmp_e = mm.group(1)
            tail = [x.strip() for x in mm.group(2).split(";") if x.strip()]
            default = tail[-1] if tail else ""
        cmp_e = re.sub(r"\s+", "", cmp_e)
        if cmp_e == "v.as_bytes().eq_ignore_ascii_case($wanted.as_bytes())":
            atom = "eqci"
        elif cmp_e in ("v.as_bytes()==$wanted.as_bytes()", "v==$wanted", "v.as_bytes().eq($wanted.as_bytes())", "v==&$wanted"):
            atom = "eqex"
        else:
            raise Inconclusive(f"header_matches! comparison outside the grammar: {cmp_e}")
        if default not in ("true", "false"):
            raise Inconclusive(f"header_matches! default outside the grammar: {default!r}")
        self.macro = (atom, default)

    # -- conditions -> SMT -----------------------------------------------------------------
    def cond(self, e: str) -> str:
        e = e.strip()
        while e.startswith("(") and self._matching(e) == len(e) - 1:
            e = e[1:-1].strip()
        parts = split_top(e, ["||"])
        if len(parts) > 1:
            return "(or " + " ".join(self.cond(p) for p in parts) + ")"
        parts = split_top(e, ["&&"])
        if len(parts) > 1:
            return "(and " + " ".join(self.cond(p) for p in parts) + ")"
        if e.startswith("!") and not e.startswith("!="):
            return "(not " + self.cond(e[1:]) + ")"
        m = re.fullmatch(r"header_matches!\(\s*(\w+)\s*,\s*(\w+)\s*\)", e)
        if m:
            var, const = m.group(1), m.group(2)
            h = self.bind.get(var)
            if h is None:
                raise Inconclusive(f"header_matches! on an unknown binding {var}")
            if const in self.pskvars:
                if h != "psk":
                    raise Inconclusive(f"the configured PSK is compared with header {h}")
                # exact comparison is the specification's psk_eq; a case-insensitive one is weaker
                atom = "psk_eq" if self.macro[0] == "eqex" else "psk_eqci"
                return f"(ite present_psk {atom} {self.macro[1]})"
            if const not in self.statics:
                raise Inconclusive(f"header_matches! against an unknown constant {const}")
            want = REQUIRED_VALUES.get(h, "?")
            if h == "protocol":
                want = self.statics.get("WANTED_PROTOCOL")
            if self.statics[const] != want:
                # compared against a different constant: a fresh atom unrelated to the spec's
                self.notes.append(f"{h} is compared with {self.statics[const]!r}, the specification wants {want!r}")
                atom = f"other_{h}"
            else:
                atom = f"{self.macro[0]}_{h}"
            return f"(ite present_{h} {atom} {self.macro[1]})"
        m = re.fullmatch(r"req\.method\(\)\s*(!=|==)\s*(?:&?\s*)?Method::(\w+)", e)
        if m:
            a = "method_get" if m.group(2) == "GET" else f"method_{m.group(2).lower()}"
            return a if m.group(1) == "==" else f"(not {a})"
        m = re.fullmatch(r"self\.ws_psk\.is_(some|none)\(\)", e)
        if m:
            return "psk_cfg" if m.group(1) == "some" else "(not psk_cfg)"
        # let-chain: `let Some(p) = self.ws_psk` is true iff a PSK is configured and names its value
        m = re.fullmatch(r"let\s+Some\(\s*(\w+)\s*\)\s*=\s*(?:&\s*)?self\.ws_psk", e)
        if m:
            self.pskvars.add(m.group(1))
            return "psk_cfg"
        m = re.fullmatch(r"(\w+)\s*(!=|==)\s*self\.ws_psk", e) or re.fullmatch(r"self\.ws_psk\s*(!=|==)\s*(\w+)", e)
        if m:
            g = m.groups()
            var = g[0] if g[0] not in ("!=", "==") else g[1]
            op = g[1] if g[1] in ("!=", "==") else g[0]
            if self.bind.get(var) != "psk":
                raise Inconclusive(f"PSK compared with an unexpected binding {var}")
            # Option<&HeaderValue> == Option<HeaderValue>: both absent, or both present and byte-equal
            eq = "(or (and (not psk_cfg) (not present_psk)) psk_eq)"
            return eq if op == "==" else f"(not {eq})"
        m = re.fullmatch(r"(\w+)\.is_(some|none)\(\)", e)
        if m:
            var = m.group(1)
            a = "on_upgrade" if var == "on_upgrade" else (f"present_{self.bind[var]}" if var in self.bind else None)
            if a is None:
                raise Inconclusive(f"is_some on unknown binding {var}")
            return a if m.group(2) == "some" else f"(not {a})"
        # a helper predicate applied to one header binding, e.g. `version_matches(sec_websocket_version)`:
        # its body is outside the grammar, so its verdict is an UNCONSTRAINED atom.  The equivalence
        # query then has abstract counterexamples ("the helper may disagree with the specification's
        # comparison"); they are concretised by trying near-miss values of that header against the
        # real service (see `opaque_replay`) - reported only if one of them really differs.
        m = re.fullmatch(r"(\w+)\(\s*(\w+)\s*\)", e)
        if m and m.group(2) in self.bind and self.bind[m.group(2)] in ("connection", "upgrade", "version", "protocol"):
            h = self.bind[m.group(2)]
            self.opaque[h] = m.group(1)
            self.notes.append(f"{h} is decided by the helper `{m.group(1)}` whose body is outside the grammar: modelled as an unconstrained predicate")
            return f"opq_{h}"
        raise Inconclusive(f"condition outside the grammar: {e!r}")

    @staticmethod
    def _matching(e: str) -> int:
        d = 0
        for i, c in enumerate(e):
            if c == "(":
                d += 1
            elif c == ")":
                d -= 1
                if d == 0:
                    return i
        return -1

    # -- ws_handler --------------------------------------------------------------------------
    def parse_ws_handler(self):
        body = strip_comments(find_fn(self.src, r"async fn ws_handler\s*\("))
        # statements up to the success response
        FALLBACK = r"return\s+self\.backend_or_404_handler\(req\)\.await\s*;"
        pos = 0
        seen_spawn = False
        resp = None
        toks = body
        # header bindings and whitelisted statements
        stmt_re = re.compile(
            r"\s*(?:"
            r"(?P<onup>let\s+on_upgrade\s*=\s*req\.extensions_mut\(\)\.remove::<OnUpgrade>\(\)\s*;)"
            r"|(?P<hdrs>let\s+headers\s*=\s*req\.headers\(\)\s*;)"
            r"|(?P<get>let\s+(?P<gname>\w+)\s*=\s*headers\.get\((?P<gkey>[^)]+)\)\s*;)"
            r"|(?P<if>if\s+(?P<icond>(?:[^{}]|\n)+?)\{(?P<ibody>(?:[^{}]|\{[^{}]*\})*?)\})"
            r"|(?P<letelse>let\s+Some\((?P<lname>\w+)\)\s*=\s*(?P<lsrc>\w+)\s+else\s*\{(?P<lbody>(?:[^{}]|\{[^{}]*\})*?)\}\s*;)"
            r"|(?P<log>(?:debug|warn|error|info|trace)!\([^;]*\)\s*;)"
            r"|(?P<accept>let\s+sec_websocket_accept\s*=\s*make_sec_websocket_accept\((?P<akey>\w+)\)\s*;)"
            r"|(?P<spawn>tokio::spawn\()"
            r"|(?P<ok>Ok\(Response::builder\(\))"
            r")", re.S)
        self.accept_from = None
        while True:
            m = stmt_re.match(toks, pos)
            if not m:
                rest = toks[pos:].strip()
                if not rest:
                    break
                raise Inconclusive(f"ws_handler: statement outside the grammar near: {rest[:80]!r}")
            if m.group("spawn"):
                # skip the balanced call
                i = m.end() - 1
                d = 0
                while i < len(toks):
                    if toks[i] == "(":
                        d += 1
                    elif toks[i] == ")":
                        d -= 1
                        if d == 0:
                            break
                    i += 1
                pos = toks.index(";", i) + 1
                seen_spawn = True
                continue
            if m.group("ok"):
                resp = toks[m.start():]
                break
            if seen_spawn:
                raise Inconclusive("ws_handler: a decision after the tunnel task was spawned")
            if m.group("get"):
                key = re.sub(r"\s+", "", m.group("gkey"))
                if key not in HEADER_KEYS:
                    raise Inconclusive(f"ws_handler: lookup of an unexpected header {key}")
                self.bind[m.group("gname")] = HEADER_KEYS[key]
            elif m.group("if"):
                ib = m.group("ibody")
                if not re.search(FALLBACK, ib):
                    raise Inconclusive("ws_handler: an `if` whose body is not the fallback return")
                if re.search(r"req\.\w+_mut\(", ib):
                    raise Inconclusive("ws_handler: request mutated before the fallback")
                self.guards.append((self.cond(m.group("icond")), " ".join(m.group("icond").split())))
            elif m.group("letelse"):
                if not re.search(FALLBACK, m.group("lbody")):
                    raise Inconclusive("ws_handler: a let-else whose else is not the fallback return")
                srcv = m.group("lsrc")
                if srcv == "on_upgrade":
                    a = "on_upgrade"
                elif srcv in self.bind:
                    a = f"present_{self.bind[srcv]}"
                else:
                    raise Inconclusive(f"let-else on unknown binding {srcv}")
                self.guards.append((f"(not {a})", f"{srcv} is None"))
                self.bind[m.group("lname")] = self.bind.get(srcv, srcv)
            elif m.group("accept"):
                self.accept_from = self.bind.get(m.group("akey"), m.group("akey"))
            pos = m.end()
        if resp is None:
            raise Inconclusive("ws_handler: success response not found")
        # request must not be mutated anywhere except the whitelisted OnUpgrade removal
        muts = re.findall(r"req\.(\w+_mut)\(\)\.?(\w*)", body)
        for a, b in muts:
            if not (a == "extensions_mut" and b == "remove"):
                raise Inconclusive(f"ws_handler mutates the request: req.{a}().{b}")
        self.resp = " ".join(resp.split())

    def check_response(self) -> list[str]:
        r = self.resp
        problems = []
        if not re.search(r"\.status\(StatusCode::SWITCHING_PROTOCOLS\)", r):
            problems.append("success response status is not 101 Switching Protocols")
        want = {"header::CONNECTION": "&UPGRADE", "header::UPGRADE": "&WEBSOCKET", "header::SEC_WEBSOCKET_PROTOCOL": "&WANTED_PROTOCOL", "header::SEC_WEBSOCKET_ACCEPT": "sec_websocket_accept"}
        got = dict((re.sub(r"\s+", "", k), re.sub(r"\s+", "", v)) for k, v in re.findall(r"\.header\(([^,]+),([^)]+)\)", r))
        for k, v in want.items():
            if got.get(k) != v:
                problems.append(f"101 response header {k} is {got.get(k)!r}, expected {v}")
        if self.accept_from != "key":
            problems.append("Sec-WebSocket-Accept is not computed from the request's Sec-WebSocket-Key")
        for c, h in (("UPGRADE", "upgrade"), ("WEBSOCKET", "websocket"), ("WEBSOCKET_VERSION", "13")):
            if self.statics.get(c) != h:
                problems.append(f"constant {c} is {self.statics.get(c)!r}, expected {h!r}")
        return problems

    # -- routing -------------------------------------------------------------------------------
    def parse_call(self):
        body = strip_comments(find_fn(self.src, r"impl Service<Request<IncomingOrFullBody>> for State\s*\{"))
        body = find_fn(body, r"fn call\s*\(")
        routes = []   # (path literal, extra condition smt, target)
        pos = 0
        for m in re.finditer(r'if\s+req\.uri\(\)\.path\(\)\s*==\s*"([^"]+)"\s*((?:&&\s*[^{]+)?)\{((?:[^{}]|\{(?:[^{}]|\{[^{}]*\})*\})*)\}', body):
            path, extra, blk = m.group(1), m.group(2).strip(), m.group(3)
            c = "true"
            if extra:
                e = extra.lstrip("&").strip()
                if e == "!self.obfs":
                    c = "(not obfs)"
                elif e == "self.obfs":
                    c = "obfs"
                else:
                    raise Inconclusive(f"call(): route condition outside the grammar: {e}")
            if "ws_handler(" in blk:
                tgt = "ws"
            elif "backend_or_404_handler(" in blk:
                tgt = "fallback"
            elif "Response::new(" in blk or "Response::builder(" in blk:
                tgt = "static_" + path.strip("/")
            else:
                raise Inconclusive(f"call(): route target outside the grammar for {path}")
            routes.append((path, c, tgt))
            pos = m.end()
        tail = body[pos:]
        if not re.search(r"backend_or_404_handler\(req\)", tail):
            raise Inconclusive("call(): default route is not backend_or_404_handler(req)")
        if re.search(r"req\.\w+_mut\(", body):
            raise Inconclusive("call(): request mutated before routing")
        self.routes = routes


def smt_preamble(atoms):
    s = "(set-logic ALL)\n"
    for a in atoms:
        s += f"(declare-const {a} Bool)\n"
    # atom relations
    for h in ("connection", "upgrade", "version", "protocol"):
        s += f"(assert (=> eqex_{h} eqci_{h}))\n(assert (=> eqci_{h} present_{h}))\n(assert (=> other_{h} present_{h}))\n"
    s += "(assert (=> psk_eq (and psk_cfg present_psk)))\n"
    # a header that equals the PSK up to ASCII case: implied by byte equality, needs both sides
    s += "(assert (=> psk_eq psk_eqci))\n(assert (=> psk_eqci (and psk_cfg present_psk)))\n"
    return s


ATOMS = ["method_get", "psk_cfg", "psk_eq", "psk_eqci", "on_upgrade", "obfs"] + [f"present_{h}" for h in ("connection", "upgrade", "key", "protocol", "version", "psk")] + \
        [f"{p}_{h}" for p in ("eqci", "eqex", "other", "opq") for h in ("connection", "upgrade", "version", "protocol")]

SPEC_UPGRADE = "(and method_get (or (not psk_cfg) psk_eq) present_key eqci_connection eqci_upgrade eqci_version eqci_protocol)"


def run_solver(cmd, text):
    t0 = time.time()
    p = subprocess.run(cmd, input=text, capture_output=True, text=True, timeout=120)
    out = p.stdout + p.stderr
    if "(error" in out or "error" in p.stderr.lower():
        return "error", out, time.time() - t0
    first = out.strip().splitlines()[0].strip() if out.strip() else ""
    return first, out, time.time() - t0


def ask(name, body, want="unsat"):
    text = body + "(check-sat)\n"
    r1, o1, t1 = run_solver(["/usr/bin/z3", "-in", "-smt2"], text)
    r2, o2, t2 = run_solver(["cvc5", "--lang", "smt2"], text)
    model = ""
    if r1 == "sat":
        _, model, _ = run_solver(["/usr/bin/z3", "-in", "-smt2"], text + "(get-model)\n")
    return dict(name=name, z3=r1, cvc5=r2, z3_s=round(t1, 3), cvc5_s=round(t2, 3), model=model, smt=text)


def model_to_atoms(model_text):
    vals = {}
    for m in re.finditer(r"\(define-fun\s+(\w+)\s*\(\)\s*Bool\s*(true|false)\)", model_text):
        vals[m.group(1)] = m.group(2) == "true"
    return vals


def atoms_to_request(v, statics):
    """Concrete request + configuration for a model (used by the native replay)."""
    hdr = []
    def hv(h, name, wanted):
        if not v.get(f"present_{h}", False):
            return
        if v.get(f"eqex_{h}", False):
            val = wanted
        elif v.get(f"eqci_{h}", False):
            val = wanted.upper() if wanted.upper() != wanted else wanted.lower()
            if val == wanted:       # e.g. "13": no case variant exists -> exact
                val = wanted
        else:
            val = "x-" + wanted
        hdr.append((name, val))
    hv("connection", "connection", "upgrade")
    hv("upgrade", "upgrade", "websocket")
    hv("version", "sec-websocket-version", "13")
    hv("protocol", "sec-websocket-protocol", statics.get("WANTED_PROTOCOL", "penguin-v7"))
    if v.get("present_key", False):
        hdr.append(("sec-websocket-key", "dGhlIHNhbXBsZSBub25jZQ=="))
    psk_cfg = v.get("psk_cfg", False)
    if v.get("present_psk", False):
        hdr.append(("x-penguin-psk", "correct PSK" if v.get("psk_eq", False) else ("CORRECT psk" if v.get("psk_eqci", False) else "correct PSK ")))
    return dict(method="GET" if v.get("method_get", False) else "POST", headers=hdr, psk="correct PSK" if psk_cfg else None,
                on_upgrade=v.get("on_upgrade", False), obfs=v.get("obfs", False))


REPLAY_TEST = '''
    #[tokio::test]
    async fn verif_c14_replay() {{
        static PSK: HeaderValue = HeaderValue::from_static("correct PSK");
        crate::tests::setup_logging();
        let state = State::new().await.unwrap().with_backend_http2_support(false){psk};
        let mk = |path: &str| {{
            let mut b = Request::builder().uri(format!("wss://example.com{{path}}")).method(Method::{method});
            {headers}
            {ext}
            b.body(EmptyBody::new()).unwrap()
        }};
        let ws = state.call(mk("/ws")).await.unwrap();
        let other = state.call(mk("/some/unknown/path")).await.unwrap();
        let upgraded = ws.status() == StatusCode::SWITCHING_PROTOCOLS;
        assert_eq!(upgraded, {expect_upgrade}, "VERIF-C14 upgrade decision differs from the specification: status {{}}", ws.status());
        if !upgraded {{
            assert_eq!(ws.status(), other.status(), "VERIF-C14 a refused /ws request is distinguishable from an unknown path");
        }}
    }}
'''


OPAQUE_TEST = '''
    #[tokio::test]
    async fn verif_c14_replay() {{
        static PSK: HeaderValue = HeaderValue::from_static("correct PSK");
        crate::tests::setup_logging();
        let state = State::new().await.unwrap().with_backend_http2_support(false){psk};
        let wanted: &str = "{wanted}";
        let candidates: &[&str] = &[{cands}];
        let mut diffs: Vec<String> = Vec::new();
        for cand in candidates {{
            let mk = |path: &str| {{
                let mut b = Request::builder().uri(format!("wss://example.com{{path}}")).method(Method::GET);
                {headers}
                b = b.header("{hname}", *cand);
                b = b.extension(hyper::upgrade::on(http::Request::new(EmptyBody::new())));
                b.body(EmptyBody::new()).unwrap()
            }};
            let ws = state.call(mk("/ws")).await.unwrap();
            let upgraded = ws.status() == StatusCode::SWITCHING_PROTOCOLS;
            let spec = cand.as_bytes().eq_ignore_ascii_case(wanted.as_bytes());
            if upgraded != spec {{
                diffs.push(format!("{{cand:?}} -> upgraded={{upgraded}}, the specification says {{spec}}"));
            }}
        }}
        assert!(diffs.is_empty(), "VERIF-C14 header {hname}: {{}}", diffs.join("; "));
    }}
'''


def opaque_replay(h, statics, scratch: Path):
    """The gate's decision on header `h` is a helper outside the grammar: try near-miss values of that
    header (everything else valid, PSK configured and correct) against the real service."""
    names = dict(connection="connection", upgrade="upgrade", version="sec-websocket-version", protocol="sec-websocket-protocol")
    wanted = dict(connection="upgrade", upgrade="websocket", version="13", protocol=statics.get("WANTED_PROTOCOL", "penguin-v7"))
    w = wanted[h]
    cands = [w, w.upper(), w.capitalize(), "0" + w, "00" + w, "+" + w, w + " ", " " + w, w + "x", "x" + w, w[:-1], w + w, w + ".0", w + "," + w, w + ";", "-" + w, "0x" + w]
    seen, cl = set(), []
    for c in cands:
        if c and c not in seen:
            seen.add(c)
            cl.append(c)
    others = [(names[k], wanted[k]) for k in names if k != h] + [("sec-websocket-key", "dGhlIHNhbXBsZSBub25jZQ=="), ("x-penguin-psk", "correct PSK")]
    hl = "\n                ".join(f'b = b.header("{k}", "{v}");' for k, v in others)
    dst = scratch / "repo-c14"
    shutil.copytree(REPO, dst, ignore=shutil.ignore_patterns("target", ".git", "SEED"))
    f = dst / "penguin" / "src" / "server" / "service.rs"
    txt = f.read_text()
    test = OPAQUE_TEST.format(psk=".with_ws_psk(Some(&PSK))", wanted=w, cands=", ".join(json.dumps(c) for c in cl), headers=hl, hname=names[h])
    i = txt.rstrip().rfind("}")
    f.write_text(txt[:i] + test + "}\n")
    env = dict(os.environ, CARGO_NET_OFFLINE="true", CARGO_TARGET_DIR=str(scratch / "target-c14"))
    p = subprocess.run(["cargo", "test", "-p", "rusty-penguin", "--lib", "--offline", "verif_c14_replay"], cwd=dst, env=env, capture_output=True, text=True, timeout=3000)
    out = p.stdout + p.stderr
    m = re.search(r"test result: (ok|FAILED)\. (\d+) passed; (\d+) failed", out)
    if not m or int(m.group(2)) + int(m.group(3)) == 0:
        return None, out[-800:], cl
    msg = re.findall(r"VERIF-C14[^\n]*", out)
    return (m.group(1) == "FAILED"), (msg[0] if msg else out[-300:]), cl


def native_replay(req, expect_upgrade, scratch: Path):
    """Run the concrete request against the real State service."""
    dst = scratch / "repo-c14"
    shutil.copytree(REPO, dst, ignore=shutil.ignore_patterns("target", ".git"))
    f = dst / "penguin" / "src" / "server" / "service.rs"
    txt = f.read_text()
    hl = "\n            ".join(f'b = b.header("{k}", "{v}");' for k, v in req["headers"])
    ext = 'b = b.extension(hyper::upgrade::on(http::Request::new(EmptyBody::new())));' if req["on_upgrade"] else ""
    test = REPLAY_TEST.format(psk=".with_ws_psk(Some(&PSK))" if req["psk"] else "", method=req["method"], headers=hl, ext=ext,
                              expect_upgrade="true" if expect_upgrade else "false")
    i = txt.rstrip().rfind("}")
    f.write_text(txt[:i] + test + "}\n")
    env = dict(os.environ, CARGO_NET_OFFLINE="true", CARGO_TARGET_DIR=str(scratch / "target-c14"))
    p = subprocess.run(["cargo", "test", "-p", "rusty-penguin", "--lib", "--offline", "verif_c14_replay"], cwd=dst, env=env, capture_output=True, text=True, timeout=3000)
    out = p.stdout + p.stderr
    m = re.search(r"test result: (ok|FAILED)\. (\d+) passed; (\d+) failed", out)
    if not m or int(m.group(2)) + int(m.group(3)) == 0:
        return None, out[-800:]
    msg = re.findall(r"VERIF-C14[^\n]*", out)
    return (m.group(1) == "FAILED"), (msg[0] if msg else out[-300:])


def main():
    tier = os.environ.get("VERIF_TIER", "quick")
    for i, a in enumerate(sys.argv):
        if a == "--tier":
            tier = sys.argv[i + 1]
    seed = int(os.environ.get("VERIF_SEED", "0") or 0)
    t0 = time.time()
    evp = EVID / "C14.json"
    evp.parent.mkdir(exist_ok=True)
    queries, lines, viol, inconc = [], [], 0, None
    known = []
    kf = VERIF / "known_findings.json"
    if kf.exists() and not os.environ.get("VERIF_IGNORE_KNOWN"):
        known = [k for k in json.loads(kf.read_text()).get("findings", []) if k.get("property") == "C14" and k.get("status") == "known"]
    try:
        g = Gate(SRC.read_text())
        g.parse_statics()
        g.parse_macro()
        g.parse_ws_handler()
        g.parse_call()
        pre = smt_preamble(ATOMS)
        impl_upgrade = "(not (or " + " ".join(c for c, _ in g.guards) + "))"
        # Q1: upgrade <=> spec (OnUpgrade present: supplied by hyper for every upgradable request)
        q1 = ask("upgrade decision == specification (given an upgradable connection)", pre + f"(assert on_upgrade)\n(assert (not (= {impl_upgrade} {SPEC_UPGRADE})))\n")
        # Q2: without OnUpgrade the gate never upgrades
        q2 = ask("no upgrade without an upgradable connection", pre + f"(assert (not on_upgrade))\n(assert {impl_upgrade})\n")
        # Q3: routing: /ws -> gate, unknown -> fallback, obfs hides /health and /version
        rt = "(declare-datatypes ((Path 0)) (((p_ws) (p_health) (p_version) (p_other))))\n(declare-datatypes ((Tgt 0)) (((t_ws) (t_fallback) (t_static))))\n(declare-const path Path)\n"
        expr = "t_fallback"
        pmap = {"/ws": "p_ws", "/health": "p_health", "/version": "p_version"}
        for pth, c, tgt in reversed(g.routes):
            if pth not in pmap:
                raise Inconclusive(f"call(): unknown special path {pth}")
            t = {"ws": "t_ws", "fallback": "t_fallback"}.get(tgt, "t_static")
            expr = f"(ite (and (= path {pmap[pth]}) {c}) {t} {expr})"
        spec_rt = ("(and (=> (= path p_ws) (= route t_ws)) (=> (= path p_other) (= route t_fallback)) "
                   "(=> (and obfs (or (= path p_health) (= path p_version))) (= route t_fallback)) "
                   "(=> (= route t_ws) (= path p_ws)))")
        q3 = ask("routing: /ws reaches the gate, obfs hides /health and /version", pre + rt + f"(define-fun route () Tgt {expr})\n(assert (not {spec_rt}))\n")
        queries = [q1, q2, q3]
        # Q4 (syntactic): response builder
        problems = g.check_response()
        # vacuity: the implementation can upgrade, and can refuse
        w1 = ask("witness: some request is upgraded", pre + f"(assert on_upgrade)\n(assert {impl_upgrade})\n", want="sat")
        w2 = ask("witness: some request is refused", pre + f"(assert on_upgrade)\n(assert (not {impl_upgrade}))\n", want="sat")
        for q in (q1, q2, q3):
            if "error" in (q["z3"], q["cvc5"]) or q["z3"] != q["cvc5"] or q["z3"] not in ("sat", "unsat"):
                raise Inconclusive(f"solvers disagree or failed on '{q['name']}': z3={q['z3']} cvc5={q['cvc5']}")
        if w1["z3"] != "sat" or w2["z3"] != "sat" or w1["cvc5"] != "sat" or w2["cvc5"] != "sat":
            raise Inconclusive("vacuity witness failed: the encoded gate can never upgrade / never refuse")
        bad = [q for q in (q1, q2, q3) if q["z3"] == "sat"]
        replay_dir = EVID / "replay"
        scratch = Path(os.environ.get("VERIF_SCRATCH", "/var/tmp")) / f"verif-C14-{os.getpid()}"
        for q in bad:
            v = model_to_atoms(q["model"])
            req = atoms_to_request(v, g.statics)
            what = f"{q['name']}: counterexample {json.dumps(req)}"
            if any(k["assertion"] in q["name"] for k in known):
                lines.append(f"KNOWN-FINDING: property=C14 {what}")
                continue
            reproduced, detail = (None, "no replay for routing queries")
            opq = [h for h in g.opaque if (q is q1)]
            if opq:
                # abstract counterexample through an unconstrained helper predicate: concretise
                scratch.mkdir(parents=True, exist_ok=True)
                try:
                    reproduced, detail, tried = opaque_replay(opq[0], g.statics, scratch)
                finally:
                    shutil.rmtree(scratch, ignore_errors=True)
                req = dict(header=opq[0], helper=g.opaque[opq[0]], candidates_tried=tried)
                what = f"{q['name']}: the helper `{g.opaque[opq[0]]}` decides header {opq[0]}; {detail}"
                if reproduced is False:
                    raise Inconclusive(f"header {opq[0]} is decided by the helper `{g.opaque[opq[0]]}` (outside the grammar) and none of the {len(tried)} near-miss values tried distinguishes it from the specification's comparison")
            elif q is q1 or q is q2:
                # expected = the specification's verdict for this request
                spec_txt = pre + "".join(f"(assert {'' if val else '(not '}{a}{'' if val else ')'})\n" for a, val in v.items() if a in ATOMS) + f"(assert {SPEC_UPGRADE})\n(check-sat)\n"
                sr, _, _ = run_solver(["/usr/bin/z3", "-in", "-smt2"], spec_txt)
                expect = (sr == "sat") and v.get("on_upgrade", False)
                scratch.mkdir(parents=True, exist_ok=True)
                try:
                    reproduced, detail = native_replay(req, expect, scratch)
                finally:
                    shutil.rmtree(scratch, ignore_errors=True)
            if reproduced is False:
                raise Inconclusive(f"counterexample of '{q['name']}' does not reproduce against the real service: {detail}")
            if reproduced is None and (q is q1 or q is q2):
                raise Inconclusive(f"native replay could not run: {detail}")
            replay_dir.mkdir(parents=True, exist_ok=True)
            rf = replay_dir / f"C14-{re.sub(r'[^a-z0-9]+', '_', q['name'].lower())[:40]}.json"
            rf.write_text(json.dumps(dict(property="C14", query=q["name"], request=req, native=detail, smt=q["smt"]), indent=1))
            viol += 1
            lines.append(f"VIOLATION property=C14 replay={rf}")
            lines.append(f"  {what}")
        for pr in problems:
            replay_dir.mkdir(parents=True, exist_ok=True)
            rf = replay_dir / "C14-response.json"
            rf.write_text(json.dumps(dict(property="C14", problem=problems, response=g.resp), indent=1))
            viol += 1
            lines.append(f"VIOLATION property=C14 replay={rf}")
            lines.append(f"  101 response: {pr}")
            break
        notes = g.notes
    except Inconclusive as e:
        inconc = str(e)
        lines.append(f"INCONCLUSIVE property=C14 reason={inconc}")
        notes = []
    wall = time.time() - t0
    discharged = sum(1 for q in queries if q["z3"] == "unsat" and q["cvc5"] == "unsat")
    ev = dict(
        property_id="C14", tier=tier, seed=seed, level="model_checking",
        coverage=dict(
            evaluations=max(1, len(queries) + 2), distinct_nontrivial=max(2, discharged + 2) if not inconc else 2,
            rule="one evaluation = one SMT query over the boolean atoms of the gate extracted from the CURRENT service.rs (decided by z3 4.8.12 and cvc5 1.0, which must agree); two further queries are satisfiability witnesses (the encoded gate can upgrade and can refuse) that guard against a vacuous encoding",
            samples=[dict(name=q["name"], z3=q["z3"], cvc5=q["cvc5"], seconds=[q["z3_s"], q["cvc5_s"]]) for q in queries] or [dict(note=inconc)],
            obligations=len(queries) + 1, discharged=discharged + (1 if not inconc and viol == 0 else 0), exhaustive=True,
            checker_cmd="/verif/gate/extract.py: regex-level extraction of State::call, ws_handler, header_matches!, statics -> SMT-LIB (QF Bool + one enum) -> /usr/bin/z3 -in -smt2 ; cvc5 --lang smt2",
            trusted_base=["the extraction grammar in gate/extract.py (anything outside it is INCONCLUSIVE)", "http::HeaderMap lookup semantics (first value of a header)", "make_sec_websocket_accept (SHA-1/base64: covered by the repository's own test vector test, not by the solver)", "z3 4.8.12, cvc5 1.0"],
            explanation="Source-level gate extraction + SMT equivalence with the specification conjunction; sat models are replayed against the real State service before being reported.",
            bounds=dict(atoms=ATOMS, functions_encoded=["server::service::State::call", "server::service::State::ws_handler", "header_matches!"], guards=[t for _, t in (g.guards if not inconc else [])] if not inconc else []),
            notes=notes,
        ),
        assumptions=["hyper attaches an OnUpgrade extension to every request on an upgradable connection", "only the first value of a repeated header is consulted (HeaderMap::get)",
                     "duplicate / empty header variants are represented by the atoms present / equal-ignoring-case / equal-exactly"],
        wall_s=round(wall, 2), violations=viol,
    )
    evp.write_text(json.dumps(ev, indent=1))
    rc = 1 if viol else (2 if inconc else 0)
    lines.append(f"C14 [{tier}] queries: {len(queries)} unsat={discharged} violations={viol} inconclusive={1 if inconc else 0} wall={wall:.1f}s -> exit {rc}")
    print("\n".join(lines))
    sys.exit(rc)


if __name__ == "__main__":
    main()
