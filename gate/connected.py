#!/usr/bin/env python3
"""C19, third part — the client's CONNECTED main loop and the parked stream request
(`on_connected`, `get_send_stream_chan` in `penguin/src/client/mod.rs`, crate rusty-penguin: not
compilable by Kani), decided by source-to-SMT translation.

The clauses of C19 decided here:
  (L) "the connected main loop must leave when the connection task ends, with or without error":
      once the multiplexor task is gone, `on_connected` returns an error the retry loop treats as
      retryable — without needing a further local event (a TCP request, a datagram, Ctrl-C) to get
      it out of its `select!`, and it never returns `Ok(())` (= "the user wants to quit") for it;
  (P) "a local connection ... whose stream request timed out is served by the next successful
      connection instead of being dropped": a stream request taken from the listeners' queue is,
      after `get_send_stream_chan`, delivered, parked in `failed_stream_request`, or the user
      cancelled; a parked request is the first thing the next `on_connected` tries, and it is
      re-parked if that attempt fails again.

How:
 1. reads the CURRENT client/mod.rs and extracts, over a deliberately tiny grammar, the `select!`
    of `on_connected`'s main loop (per arm: pattern, awaited source, and what the body does with
    the value: continue / break / return Err / propagate with `?`), the prelude that retries a
    parked request, and the `select!` of `get_send_stream_chan` (per arm: parks the request or not,
    result); from maybe_retryable.rs the set of `client::Error` variants classified retryable;
 2. encodes N iterations of the loop with `tokio::select!`'s semantics (an arm whose future is
    ready with a value that does not match its pattern is disabled; all arms disabled -> `else`;
    otherwise one ready matching arm, chosen arbitrarily; no ready arm -> the loop sleeps) as an
    SMT problem in which the moment and the way the multiplexor task ends, the arrival of local
    events, the arm `select!` picks and the results of the calls are symbolic, with the
    environment contract of a dead multiplexor (JoinSet::join_next -> the result once, then None;
    get_datagram -> Err; new_stream_channel / send_datagram -> Err(Closed));
    asks z3 AND cvc5 whether (L) or (P) can be violated;
 3. on `sat`, maps the model to one of two native scenarios against the REAL `on_connected`
    (a real tungstenite server on loopback that closes in an orderly way / that never answers a
    stream request), compiled as a test inside the crate in a scratch copy, and reports a
    violation only if that test fails.

A construct outside the grammar => INCONCLUSIVE (exit 2), never a violation.
"""
from __future__ import annotations

import json
import os
import re
import shutil
import subprocess
import sys
import time
from pathlib import Path

VERIF = Path(__file__).resolve().parent.parent
REPO = Path(os.environ.get("VERIF_REPO", "/repo"))
# evidence directory (overridden when a check is pointed at a seeded worktree, so that the committed evidence is not overwritten)
EVID = Path(os.environ.get("VERIF_EVIDENCE_DIR", str(VERIF / "evidence")))
SRC = REPO / "penguin" / "src" / "client" / "mod.rs"
SRC_RETRY = REPO / "penguin" / "src" / "client" / "maybe_retryable.rs"
N_STEPS = int(os.environ.get("VERIF_C19_LOOP_STEPS", "5"))

SOURCES = {
    r"mux_task_joinset\.join_next\(\)": "TASK",
    r"stream_command_rx\.recv\(\)": "REQ",
    r"datagram_rx\.recv\(\)": "DGOUT",
    r"mux\.get_datagram\(\)": "DGIN",
    r"tokio::signal::ctrl_c\(\)": "CTRLC",
}
LOGMAC = r"(?:warn|info|debug|error|trace)!"


class Inconclusive(Exception):
    pass


def strip_comments(s: str) -> str:
    return re.sub(r"//[^\n]*", "", s)


def balanced(src: str, i: int) -> int:
    pairs = {"{": "}", "(": ")", "[": "]"}
    o = src[i]
    c = pairs[o]
    d = 0
    j = i
    in_str = False
    while j < len(src):
        ch = src[j]
        if in_str:
            if ch == "\\":
                j += 1
            elif ch == '"':
                in_str = False
        elif ch == '"':
            in_str = True
        elif ch == o:
            d += 1
        elif ch == c:
            d -= 1
            if d == 0:
                return j
        j += 1
    raise Inconclusive("unbalanced brackets")


def fn_body(src: str, name: str) -> str:
    m = re.search(r"async\s+fn\s+" + name + r"\s*\(", src)
    if not m:
        raise Inconclusive(f"`async fn {name}` not found")
    p = balanced(src, m.end() - 1)
    i = src.index("{", p)
    j = balanced(src, i)
    return src[i + 1:j]


def norm(s: str) -> str:
    return " ".join(s.split())


def strip_logging(s: str) -> str:
    """remove tracing macro calls (with their balanced argument list) and a trailing `;`"""
    out = ""
    i = 0
    rx = re.compile(LOGMAC + r"\s*\(")
    while True:
        m = rx.search(s, i)
        if not m:
            out += s[i:]
            break
        out += s[i:m.start()]
        e = balanced(s, m.end() - 1)
        i = e + 1
        k = i
        while k < len(s) and s[k].isspace():
            k += 1
        if k < len(s) and s[k] == ";":
            i = k + 1
        else:
            out += "()"
    return out


def select_arms(block: str):
    """arms of a `tokio::select! { .. }` body: list of (pattern, future, body), pattern None = else"""
    arms = []
    pos = 0
    n = len(block)
    while True:
        while pos < n and (block[pos].isspace() or block[pos] == ","):
            pos += 1
        if pos >= n:
            break
        if block.startswith("biased;", pos):
            pos += len("biased;")
            continue
        m = re.match(r"else\s*=>\s*", block[pos:])
        if m:
            k = pos + m.end()
            pat, fut = None, None
        else:
            # pattern up to the first top-level `=` that is not `=>` / `==`
            d = 0
            k = pos
            eq = None
            while k < n:
                ch = block[k]
                if ch in "([{":
                    d += 1
                elif ch in ")]}":
                    d -= 1
                elif ch == "=" and d == 0 and block[k + 1] not in "=>" and block[k - 1] not in "=!<>":
                    eq = k
                    break
                k += 1
            if eq is None:
                raise Inconclusive(f"select arm outside the grammar near {block[pos:pos+60]!r}")
            pat = norm(block[pos:eq])
            # future up to the top-level `=>`
            d = 0
            k = eq + 1
            ar = None
            while k < n - 1:
                ch = block[k]
                if ch in "([{":
                    d += 1
                elif ch in ")]}":
                    d -= 1
                elif ch == "=" and block[k + 1] == ">" and d == 0:
                    ar = k
                    break
                k += 1
            if ar is None:
                raise Inconclusive("select arm without `=>`")
            fut = norm(block[eq + 1:ar])
            k = ar + 2
            while k < n and block[k].isspace():
                k += 1
        if k < n and block[k] == "{":
            e = balanced(block, k)
            body = block[k + 1:e]
            pos = e + 1
        else:
            d = 0
            e = k
            while e < n:
                ch = block[e]
                if ch in "([{":
                    d += 1
                elif ch in ")]}":
                    d -= 1
                elif ch == "," and d == 0:
                    break
                e += 1
            body = block[k:e]
            pos = e + 1
        arms.append((pat, fut, body.strip()))
    return arms


# ---- body classification ---------------------------------------------------------------------
GSSC_CALL = r"get_send_stream_chan\(\s*&mux\s*,\s*sender\s*,\s*failed_stream_request\s*,\s*args\.channel_timeout\s*,?\s*\)\s*\.await"


def classify_loop_body(kind: str, pat: str, body: str):
    """-> dict(outcome per situation).  Outcomes: 'cont', 'break', 'err', 'ok'."""
    b = norm(strip_logging(body))
    if kind == "TASK":
        mv = re.fullmatch(r"Some\((\w+)\)", pat)
        if not mv:
            raise Inconclusive(f"join_next arm pattern outside the grammar: {pat!r}")
        v = mv.group(1)
        m = re.match(re.escape(v) + r"\s*\.expect\(\s*\"[^\"]*\"\s*\)\s*\?\s*;\s*", b)
        if not m:
            raise Inconclusive(f"join_next arm: `{v}.expect(..)?;` expected first, found {b[:80]!r}")
        rest = b[m.end():].strip()
        on_err = "err"
        if rest == "":
            on_ok, ok_err = "cont", None
        elif re.fullmatch(r"break\s*;?", rest):
            on_ok, ok_err = "break", None
        else:
            mr = re.fullmatch(r"return\s+Err\(\s*Error::(\w+)\s*\)\s*;?", rest)
            if not mr:
                raise Inconclusive(f"join_next arm: tail outside the grammar: {rest[:80]!r}")
            on_ok, ok_err = "err", mr.group(1)
        return dict(task_ok=on_ok, task_ok_error=ok_err, task_err=on_err)
    if kind == "REQ":
        if pat != "Some(sender)":
            raise Inconclusive(f"stream request arm pattern outside the grammar: {pat!r}")
        m = re.fullmatch(r"if let Err\(e\) = " + GSSC_CALL + r"\s*\{\s*if matches!\(e, Error::Cancelled\)\s*\{\s*break;\s*\}\s*else\s*\{\s*return Err\(e\);\s*\}\s*\}", b)
        if not m:
            raise Inconclusive(f"stream request arm outside the grammar: {b[:120]!r}")
        return dict(call_ok="cont", call_cancelled="break", call_err="err")
    if kind == "DGOUT":
        if not re.fullmatch(r"Some\(\w+\)", pat):
            raise Inconclusive(f"outgoing datagram arm pattern outside the grammar: {pat!r}")
        if not re.fullmatch(r"if let Err\(\w+\) = mux\.send_datagram\(\w+\)\.await\s*\{\s*\}", b):
            raise Inconclusive(f"outgoing datagram arm outside the grammar: {b[:120]!r}")
        return dict(always="cont")
    if kind == "DGIN":
        if not re.fullmatch(r"Ok\(\w+\)", pat):
            raise Inconclusive(f"incoming datagram arm pattern outside the grammar: {pat!r}")
        if re.search(r"\breturn\b|\bbreak\b|\?\s*;|\?\s*\.|\bloop\b|\bwhile\b", b):
            raise Inconclusive("incoming datagram arm leaves the loop or loops")
        return dict(always="cont")
    if kind == "CTRLC":
        if pat != "Ok(())":
            raise Inconclusive(f"ctrl-c arm pattern outside the grammar: {pat!r}")
        if not re.fullmatch(r"break\s*;?", b):
            raise Inconclusive(f"ctrl-c arm outside the grammar: {b[:80]!r}")
        return dict(always="break")
    raise Inconclusive(f"unknown arm kind {kind}")


def extract(src_text: str, retry_text: str):
    facts = {}
    body = strip_comments(fn_body(src_text, "on_connected"))
    # ---- the main loop: the `loop {` whose body is exactly one select!
    loops = [m for m in re.finditer(r"\bloop\s*\{", body)]
    if len(loops) != 1:
        raise Inconclusive(f"on_connected: expected exactly one `loop`, found {len(loops)}")
    li = loops[0].end() - 1
    lj = balanced(body, li)
    lbody = body[li + 1:lj].strip()
    ms = re.fullmatch(r"tokio::select!\s*\{(.*)\}\s*", lbody, re.S)
    if not ms:
        raise Inconclusive("on_connected: the loop body is not a single tokio::select!")
    arms = select_arms(ms.group(1))
    loop_arms = []
    seen = set()
    else_arm = None
    for pat, fut, ab in arms:
        if pat is None:
            b = norm(strip_logging(ab))
            me = re.fullmatch(r"return\s+Err\(\s*Error::(\w+)\s*\)\s*;?", b)
            if not me:
                raise Inconclusive(f"else arm outside the grammar: {b[:80]!r}")
            else_arm = me.group(1)
            continue
        kind = None
        for rx, k in SOURCES.items():
            if re.fullmatch(rx, fut):
                kind = k
        if kind is None:
            raise Inconclusive(f"select arm awaits something outside the grammar: {fut!r}")
        if kind in seen:
            raise Inconclusive(f"two arms await {kind}")
        seen.add(kind)
        loop_arms.append(dict(kind=kind, pattern=pat, future=fut, **classify_loop_body(kind, pat, ab)))
    facts["loop_arms"] = loop_arms
    facts["else_error"] = else_arm
    # ---- prelude: parked request first
    pre = norm(strip_logging(body[:loops[0].start()]))
    mp = re.search(r"if let Some\(sender\) = failed_stream_request\.take\(\)\s*&& let Err\(e\) = " + GSSC_CALL
                   + r"\s*\{\s*if matches!\(e, Error::Cancelled\)\s*\{\s*return Ok\(\(\)\);\s*\}\s*else\s*\{\s*return Err\(e\);\s*\}\s*\}", pre)
    facts["prelude_retries_parked_first"] = bool(mp)
    if not mp:
        # is the slot touched at all before the loop?
        if re.search(r"failed_stream_request", pre):
            raise Inconclusive("prelude handles failed_stream_request in a way outside the grammar")
    else:
        before = pre[:mp.start()]
        if re.search(r"stream_command_rx|\.recv\(\)", before):
            raise Inconclusive("prelude reads the request queue before the parked request")
    # ---- after the loop (Ctrl-C path): must not matter for (L)/(P); only note it
    facts["post_loop"] = norm(strip_logging(body[lj + 1:]))[:200]
    # ---- get_send_stream_chan
    g = strip_comments(fn_body(src_text, "get_send_stream_chan"))
    gn = norm(strip_logging(g))
    # form A: the body is one `tokio::select! { .. }` whose arms are the function's value;
    # form B: `let x = tokio::select! { .. }; match x { Ok(..) => .., Err(..) => .. }` where the
    #         ctrl-c / timeout arms `return` and the answering arm yields the call's result
    mg = re.fullmatch(r"tokio::select!\s*\{(.*)\}\s*", gn, re.S)
    trailing_match = None
    if not mg:
        mB = re.match(r"let (\w+) = tokio::select!\s*\{", gn)
        if not mB:
            raise Inconclusive("get_send_stream_chan: body is neither a single tokio::select! nor `let x = tokio::select!{..}; match x {..}`")
        se = balanced(gn, mB.end() - 1)
        rest = gn[se + 1:].strip()
        if not rest.startswith(";"):
            raise Inconclusive("get_send_stream_chan: `let x = tokio::select!{..}` not terminated")
        rest = rest[1:].strip()
        if not re.match(r"match " + mB.group(1) + r"\s*\{", rest) or balanced(rest, rest.index("{")) != len(rest) - 1:
            raise Inconclusive("get_send_stream_chan: statements after the select! other than one `match` on its value")
        trailing_match = (mB.group(1), rest)

        class _M:  # same interface as the regex match of form A
            def __init__(self, s):
                self.s = s

            def group(self, _):
                return self.s
        mg = _M(gn[mB.end():se])
    garms = []
    for pat, fut, ab in select_arms(mg.group(1)):
        b = norm(ab)
        if trailing_match is not None:
            # arms that leave the function: `return X;` / `return X` has the value X
            b = re.sub(r"return (.*?);?$", r"\1", b).strip()
            if re.fullmatch(r"\w+", pat or "") and b == pat and "new_stream_channel" in (fut or ""):
                # the answering arm yields the result: its handling is the trailing match
                b = trailing_match[1].replace("match " + trailing_match[0], "match " + pat, 1)
        parks = len(re.findall(r"failed_stream_request\.replace\(stream_command\)", b))
        if pat == "Ok(())" and fut == "tokio::signal::ctrl_c()":
            if not re.fullmatch(r"Err\(Error::Cancelled\)", b):
                raise Inconclusive(f"get_send_stream_chan ctrl-c arm outside the grammar: {b!r}")
            garms.append(dict(kind="ctrlc", parks=False, result="cancelled"))
        elif fut == "channel_timeout.sleep()":
            m2 = re.fullmatch(r"(failed_stream_request\.replace\(stream_command\);\s*)?Err\(Error::(\w+)\)", b)
            if not m2:
                raise Inconclusive(f"get_send_stream_chan timeout arm outside the grammar: {b!r}")
            garms.append(dict(kind="timeout", parks=bool(m2.group(1)), result="err", error=m2.group(2)))
        elif re.fullmatch(r"mux\.new_stream_channel\(&stream_command\.host, stream_command\.port\)", fut):
            if not re.fullmatch(r"\w+", pat or ""):
                raise Inconclusive("get_send_stream_chan: new_stream_channel arm pattern outside the grammar")
            r = pat
            m3 = re.fullmatch(r"match " + r + r"\s*\{\s*Ok\((\w+)\) => \{\s*(.*?)\s*Ok\(\(\)\)\s*\}\s*,?\s*Err\((\w+)\) => \{\s*(.*?)\s*Err\(\3\.into\(\)\)\s*\}\s*,?\s*\}", b)
            if not m3:
                raise Inconclusive(f"get_send_stream_chan: new_stream_channel arm outside the grammar: {b[:160]!r}")
            okb, errb = m3.group(2), m3.group(4)
            delivered = bool(re.fullmatch(r"stream_command\.tx\.send\(" + m3.group(1) + r"\)\.ok\(\);", okb.strip()))
            if not delivered and okb.strip():
                raise Inconclusive(f"get_send_stream_chan: Ok branch outside the grammar: {okb!r}")
            ep = errb.strip()
            if ep not in ("", "failed_stream_request.replace(stream_command);"):
                raise Inconclusive(f"get_send_stream_chan: Err branch outside the grammar: {ep!r}")
            garms.append(dict(kind="answer", delivers_on_ok=delivered, parks_on_err=bool(ep)))
        else:
            raise Inconclusive(f"get_send_stream_chan: arm outside the grammar: {pat!r} = {fut!r}")
        if parks > 1:
            raise Inconclusive("request parked twice in one arm")
    kinds = [a["kind"] for a in garms]
    if sorted(kinds) != ["answer", "ctrlc", "timeout"]:
        raise Inconclusive(f"get_send_stream_chan: arms {kinds}, expected ctrl-c, timeout, answer")
    facts["gssc"] = garms
    # ---- retryable classification of client::Error
    rt = strip_comments(retry_text)
    mi = re.search(r"impl\s+MaybeRetryableError\s+for\s+super::Error\s*\{", rt)
    if not mi:
        raise Inconclusive("impl MaybeRetryableError for super::Error not found")
    ib = rt[mi.end() - 1: balanced(rt, mi.end() - 1) + 1]
    mt = re.search(r"((?:Self::\w+\s*\|?\s*)+)=>\s*true", ib)
    unit_true = re.findall(r"Self::(\w+)", mt.group(1)) if mt else []
    facts["retryable_unit_variants"] = unit_true
    facts["mux_errors_delegated"] = bool(re.search(r"Self::Mux\((\w+)\)\s*=>\s*\1\.retryable\(\)", ib))
    mm = re.search(r"impl\s+MaybeRetryableError\s+for\s+penguin_mux::Error\s*\{", rt)
    closed_retryable = False
    if mm:
        mb = rt[mm.end() - 1: balanced(rt, mm.end() - 1) + 1]
        m4 = re.search(r"((?:Self::\w+\s*\|?\s*)+)=>\s*true", mb)
        closed_retryable = bool(m4 and "Closed" in re.findall(r"Self::(\w+)", m4.group(1)))
    facts["mux_closed_retryable"] = closed_retryable and facts["mux_errors_delegated"]
    return facts


# ---- SMT ------------------------------------------------------------------------------------
# task state: 0 running, 1 ended Ok (result not yet taken), 2 ended Err (not yet taken), 3 taken
# step outcome: 0 cont, 1 break (user quit path), 2 return Err retryable, 3 return Err not
#               retryable, 4 return Ok, 5 blocked (select! sleeps, nothing ready)
def smt_loop(facts) -> str:
    arms = {a["kind"]: a for a in facts["loop_arms"]}
    retry_ok = set(facts["retryable_unit_variants"])

    def errcode(name):
        return 2 if name in retry_ok else 3
    s = "(set-logic ALL)\n(define-fun task0 () Int 0)\n(define-fun live0 () Bool true)\n"
    for i in range(N_STEPS):
        s += f"(declare-const end{i} Int)\n(assert (and (>= end{i} 0) (<= end{i} 2)))\n"   # env: the task ends before this iteration
        for v in ("req", "dg", "inn", "cc"):
            s += f"(declare-const {v}{i} Bool)\n"
        s += f"(declare-const pick{i} Int)\n(declare-const call{i} Int)\n(assert (and (>= call{i} 0) (<= call{i} 2)))\n"  # call: 0 ok 1 cancelled 2 err
        s += f"(declare-const taskerr_retryable{i} Bool)\n"
        # the task may end only while it runs
        s += f"(define-fun t{i} () Int (ite (and (= task{i} 0) (> end{i} 0)) end{i} task{i}))\n"
        s += f"(define-fun dead{i} () Bool (not (= t{i} 0)))\n"
        # environment contract of a dead multiplexor: calls on it fail (Closed), nothing comes in
        s += f"(assert (=> dead{i} (= call{i} 2)))\n"
        ready, match = {}, {}
        ready["TASK"] = f"(not (= t{i} 0))"
        match["TASK"] = f"(or (= t{i} 1) (= t{i} 2))"
        ready["REQ"], match["REQ"] = f"req{i}", "true"
        ready["DGOUT"], match["DGOUT"] = f"dg{i}", "true"
        ready["DGIN"] = f"(or dead{i} inn{i})"
        match["DGIN"] = f"(not dead{i})"
        ready["CTRLC"], match["CTRLC"] = f"cc{i}", "true"
        kinds = [k for k in ("TASK", "REQ", "DGOUT", "DGIN", "CTRLC") if k in arms]
        en = {k: f"(and {ready[k]} {match[k]})" for k in kinds}
        dis = {k: f"(and {ready[k]} (not {match[k]}))" for k in kinds}
        anyen = "(or " + " ".join(en[k] for k in kinds) + ")"
        alldis = "(and " + " ".join(dis[k] for k in kinds) + ")"
        # pick: index into kinds, must be an enabled arm when any is
        s += f"(assert (and (>= pick{i} 0) (< pick{i} {len(kinds)})))\n"
        s += f"(assert (=> {anyen} (or " + " ".join(f"(and (= pick{i} {n}) {en[k]})" for n, k in enumerate(kinds)) + ")))\n"
        # outcome of the picked arm
        def arm_out(k):
            a = arms[k]
            if k == "TASK":
                okc = {"cont": 0, "break": 1}.get(a["task_ok"])
                if okc is None:
                    okc = errcode(a["task_ok_error"])
                # the task's own error: retryable or not is the environment's (symbolic)
                return f"(ite (= t{i} 1) {okc} (ite taskerr_retryable{i} 2 3))"
            if k == "REQ":
                closed = 2 if facts["mux_closed_retryable"] else 3
                return f"(ite (= call{i} 0) 0 (ite (= call{i} 1) 1 (ite dead{i} {closed} (ite taskerr_retryable{i} 2 3))))"
            return {"cont": "0", "break": "1"}[a["always"]]
        picked = "5"
        for n, k in reversed(list(enumerate(kinds))):
            picked = f"(ite (= pick{i} {n}) {arm_out(k)} {picked})"
        else_out = errcode(facts["else_error"]) if facts["else_error"] else 5
        s += f"(define-fun out{i} () Int (ite (not live{i}) (- 1) (ite {anyen} {picked} (ite {alldis} {else_out} 5))))\n"
        # the join_next result is consumed when its arm runs
        tk = kinds.index("TASK") if "TASK" in kinds else -1
        s += f"(define-fun task{i+1} () Int (ite (and live{i} {anyen} (= pick{i} {tk})) 3 t{i}))\n"
        s += f"(define-fun live{i+1} () Bool (and live{i} (or (= out{i} 0) (= out{i} 5))))\n"
    return s


def loop_queries(facts):
    base = smt_loop(facts)
    qs = []
    # (L1) with the multiplexor task gone the loop never sleeps
    qs.append(("L1: the loop never sleeps in select! once the multiplexor task has ended",
               base + "(assert (or " + " ".join(f"(and live{i} dead{i} (= out{i} 5))" for i in range(N_STEPS)) + "))\n"))
    # (L2) with the task gone and no local event it leaves within the iteration(s) that observe it:
    #      never a `continue` on a dead multiplexor without a local event having been served
    qs.append(("L2: without local events, an ended task makes the loop return within two iterations",
               base + "(assert (or " + " ".join(
                   f"(and live{i} dead{i} (not req{i}) (not dg{i}) (not cc{i}) (not req{i+1}) (not dg{i+1}) (not cc{i+1}) (= out{i} 0) (or (= out{i+1} 0) (= out{i+1} 5)))"
                   for i in range(N_STEPS - 1)) + "))\n"))
    # (L3) a lost connection is never reported as Ok(()) (directly, or through `break` = the Ctrl-C
    #      path, which ends with Ok(())) nor as a non-retryable error of the client's own choosing
    qs.append(("L3: leaving because the task ended cleanly yields a retryable error, never Ok / the Ctrl-C path",
               base + "(assert (or " + " ".join(f"(and live{i} (or (= t{i} 1) (= t{i} 3)) (not cc{i}) (or (= out{i} 1) (= out{i} 3) (= out{i} 4)))" for i in range(N_STEPS)) + "))\n"))
    return base, qs


def smt_parked(facts) -> str:
    """one request through get_send_stream_chan, then the next connection's prelude"""
    g = {a["kind"]: a for a in facts["gssc"]}
    s = "(set-logic ALL)\n"
    # first attempt: how = 0 answered Ok, 1 answered Err, 2 timeout, 3 ctrl-c
    for n in (1, 2):
        s += f"(declare-const how{n} Int)\n(assert (and (>= how{n} 0) (<= how{n} 3)))\n"
    def attempt(n, have):
        d = f"(and {have} (= how{n} 0) {str(g['answer']['delivers_on_ok']).lower()})"
        p = f"(and {have} (or (and (= how{n} 1) {str(g['answer']['parks_on_err']).lower()}) (and (= how{n} 2) {str(g['timeout']['parks']).lower()})))"
        c = f"(and {have} (= how{n} 3))"
        return d, p, c
    d1, p1, c1 = attempt(1, "true")
    s += f"(define-fun delivered1 () Bool {d1})\n(define-fun parked1 () Bool {p1})\n(define-fun cancelled1 () Bool {c1})\n"
    # next connection: the prelude takes the parked request and tries it first
    pre = str(facts["prelude_retries_parked_first"]).lower()
    d2, p2, c2 = attempt(2, f"(and parked1 {pre})")
    s += f"(define-fun delivered2 () Bool {d2})\n(define-fun parked2 () Bool {p2})\n(define-fun cancelled2 () Bool {c2})\n"
    return s


def parked_queries(facts):
    base = smt_parked(facts)
    return base, [
        ("P1: a request taken from the queue is delivered, parked or cancelled by the user",
         base + "(assert (not (or delivered1 parked1 cancelled1)))\n"),
        ("P2: a parked request is tried first by the next connection and delivered, re-parked or cancelled",
         base + "(assert (and parked1 (not (or delivered2 parked2 cancelled2))))\n"),
    ]


def run_solver(cmd, text):
    t0 = time.time()
    p = subprocess.run(cmd, input=text, capture_output=True, text=True, timeout=120)
    out = p.stdout + p.stderr
    if "(error" in out or "error" in p.stderr.lower():
        return "error", out, time.time() - t0
    first = out.strip().splitlines()[0].strip() if out.strip() else ""
    return first, out, time.time() - t0


def get_model(text, names):
    p = subprocess.run(["/usr/bin/z3", "-in", "-smt2"], input=text + "(check-sat)\n(get-value (" + " ".join(names) + "))\n", capture_output=True, text=True, timeout=120)
    vals = {}
    for k, v in re.findall(r"\((\w+)\s+((?:\(- \d+\))|\d+|true|false)\)", p.stdout):
        vals[k] = v if v in ("true", "false") else int(v.replace("(- ", "-").replace(")", ""))
    return vals


# ---- native replay -----------------------------------------------------------------------------
REPLAY = r'''
    // ---- generated by /verif/gate/connected.py: the real on_connected against a real tungstenite peer ----
    #[tokio::test]
    async fn verif_c19_connected_orderly_close() {
        use futures_util::{SinkExt, StreamExt};
        let listener = tokio::net::TcpListener::bind("127.0.0.1:0").await.unwrap();
        let addr = listener.local_addr().unwrap();
        let server = tokio::spawn(async move {
            let (s, _) = listener.accept().await.unwrap();
            let mut ws = tokio_tungstenite::accept_async(s).await.unwrap();
            ws.close(None).await.ok();
            while let Some(m) = ws.next().await {
                if m.is_err() {
                    break;
                }
            }
        });
        let tcp = TcpStream::connect(addr).await.unwrap();
        let (ws_stream, _) = tokio_tungstenite::client_async(format!("ws://{addr}/ws"), MaybeTlsStream::Plain(tcp)).await.unwrap();
        let args = ClientArgs { keepalive: OptionalDuration::NONE, ..Default::default() };
        let (_stx, mut srx) = mpsc::channel::<StreamCommand>(1);
        let (_dtx, mut drx) = mpsc::channel::<Datagram>(1);
        let map = Mutex::new(ClientIdMaps::new());
        let mut failed = None;
        let r = time::timeout(Duration::from_secs(5), on_connected(&args, ws_stream, &mut srx, &mut failed, &mut drx, &map)).await;
        server.abort();
        let verdict = match &r {
            Err(_) => "still running on the dead multiplexor after 5 s without any local event".to_string(),
            Ok(Ok(())) => "returned Ok(()) = the client quits as if the user had asked".to_string(),
            Ok(Err(e)) if !e.retryable() => format!("returned the non-retryable error {e:?}"),
            Ok(Err(_)) => String::new(),
        };
        assert!(verdict.is_empty(), "VERIF-C19 on_connected after an orderly close by the server: {verdict}");
    }

    #[tokio::test]
    async fn verif_c19_connected_request_timeout_parks() {
        use futures_util::StreamExt;
        let listener = tokio::net::TcpListener::bind("127.0.0.1:0").await.unwrap();
        let addr = listener.local_addr().unwrap();
        let server = tokio::spawn(async move {
            let (s, _) = listener.accept().await.unwrap();
            let mut ws = tokio_tungstenite::accept_async(s).await.unwrap();
            // read, never answer
            while let Some(m) = ws.next().await {
                if m.is_err() {
                    break;
                }
            }
        });
        let tcp = TcpStream::connect(addr).await.unwrap();
        let (ws_stream, _) = tokio_tungstenite::client_async(format!("ws://{addr}/ws"), MaybeTlsStream::Plain(tcp)).await.unwrap();
        let args = ClientArgs { keepalive: OptionalDuration::NONE, channel_timeout: OptionalDuration::from_secs(1), ..Default::default() };
        let (stx, mut srx) = mpsc::channel::<StreamCommand>(1);
        let (_dtx, mut drx) = mpsc::channel::<Datagram>(1);
        let map = Mutex::new(ClientIdMaps::new());
        let mut failed = None;
        let (tx, mut rx) = oneshot::channel();
        stx.send(StreamCommand { tx, host: Bytes::from_static(b"example.com"), port: 80 }).await.unwrap();
        let r = time::timeout(Duration::from_secs(8), on_connected(&args, ws_stream, &mut srx, &mut failed, &mut drx, &map)).await;
        server.abort();
        let parked = failed.as_ref().is_some_and(|c| c.port == 80 && c.host.as_ref() == b"example.com");
        let dropped = matches!(rx.try_recv(), Err(oneshot::error::TryRecvError::Closed));
        assert!(matches!(r, Ok(Err(_))) && parked && !dropped,
            "VERIF-C19 stream request that timed out: result {r:?}, parked for the next connection: {parked}, handler's channel dropped: {dropped}");
    }

    #[tokio::test]
    async fn verif_c19_connected_parked_timeout_reparks() {
        use futures_util::StreamExt;
        let listener = tokio::net::TcpListener::bind("127.0.0.1:0").await.unwrap();
        let addr = listener.local_addr().unwrap();
        let server = tokio::spawn(async move {
            let (s, _) = listener.accept().await.unwrap();
            let mut ws = tokio_tungstenite::accept_async(s).await.unwrap();
            // read, never answer
            while let Some(m) = ws.next().await {
                if m.is_err() {
                    break;
                }
            }
        });
        let tcp = TcpStream::connect(addr).await.unwrap();
        let (ws_stream, _) = tokio_tungstenite::client_async(format!("ws://{addr}/ws"), MaybeTlsStream::Plain(tcp)).await.unwrap();
        let args = ClientArgs { keepalive: OptionalDuration::NONE, channel_timeout: OptionalDuration::from_secs(1), ..Default::default() };
        let (_stx, mut srx) = mpsc::channel::<StreamCommand>(1);
        let (_dtx, mut drx) = mpsc::channel::<Datagram>(1);
        let map = Mutex::new(ClientIdMaps::new());
        let (tx, mut rx) = oneshot::channel();
        // the request was parked by the previous connection; this connection's attempt times out too
        let mut failed = Some(StreamCommand { tx, host: Bytes::from_static(b"example.com"), port: 80 });
        let r = time::timeout(Duration::from_secs(8), on_connected(&args, ws_stream, &mut srx, &mut failed, &mut drx, &map)).await;
        server.abort();
        let parked = failed.as_ref().is_some_and(|c| c.port == 80 && c.host.as_ref() == b"example.com");
        let dropped = matches!(rx.try_recv(), Err(oneshot::error::TryRecvError::Closed));
        assert!(matches!(r, Ok(Err(_))) && parked && !dropped,
            "VERIF-C19 a parked stream request whose retry timed out: result {r:?}, parked again: {parked}, handler's channel dropped: {dropped}");
    }

    #[tokio::test]
    async fn verif_c19_connected_request_refused_parks() {
        use futures_util::{SinkExt, StreamExt};
        use tokio_tungstenite::tungstenite::Message;
        let listener = tokio::net::TcpListener::bind("127.0.0.1:0").await.unwrap();
        let addr = listener.local_addr().unwrap();
        let server = tokio::spawn(async move {
            let (s, _) = listener.accept().await.unwrap();
            let mut ws = tokio_tungstenite::accept_async(s).await.unwrap();
            // a peer that refuses every Connect with a Reset of that flow id
            while let Some(Ok(m)) = ws.next().await {
                if let Message::Binary(b) = m
                    && let Ok(fr) = penguin_mux::frame::Frame::try_from(b.as_ref())
                {
                    let rst = penguin_mux::frame::Frame::new_reset(fr.id);
                    ws.send(Message::Binary(Bytes::from(&rst))).await.ok();
                }
            }
        });
        let tcp = TcpStream::connect(addr).await.unwrap();
        let (ws_stream, _) = tokio_tungstenite::client_async(format!("ws://{addr}/ws"), MaybeTlsStream::Plain(tcp)).await.unwrap();
        let args = ClientArgs { keepalive: OptionalDuration::NONE, channel_timeout: OptionalDuration::from_secs(10), ..Default::default() };
        let (_stx, mut srx) = mpsc::channel::<StreamCommand>(1);
        let (_dtx, mut drx) = mpsc::channel::<Datagram>(1);
        let map = Mutex::new(ClientIdMaps::new());
        let (tx, mut rx) = oneshot::channel();
        let mut failed = Some(StreamCommand { tx, host: Bytes::from_static(b"example.com"), port: 80 });
        let r = time::timeout(Duration::from_secs(8), on_connected(&args, ws_stream, &mut srx, &mut failed, &mut drx, &map)).await;
        server.abort();
        let parked = failed.as_ref().is_some_and(|c| c.port == 80 && c.host.as_ref() == b"example.com");
        let dropped = matches!(rx.try_recv(), Err(oneshot::error::TryRecvError::Closed));
        assert!(matches!(r, Ok(Err(_))) && parked && !dropped,
            "VERIF-C19 stream request that the multiplexor answered with an error: result {r:?}, parked for the next connection: {parked}, handler's channel dropped: {dropped}");
    }

    #[tokio::test]
    async fn verif_c19_connected_parked_served_first() {
        let listener = tokio::net::TcpListener::bind("127.0.0.1:0").await.unwrap();
        let addr = listener.local_addr().unwrap();
        let server = tokio::spawn(async move {
            let (s, _) = listener.accept().await.unwrap();
            let ws = tokio_tungstenite::accept_async(s).await.unwrap();
            let mux = Multiplexor::new(ws);
            let st = mux.accept_stream_channel().await;
            time::sleep(Duration::from_secs(30)).await;
            drop(st);
            drop(mux);
        });
        let tcp = TcpStream::connect(addr).await.unwrap();
        let (ws_stream, _) = tokio_tungstenite::client_async(format!("ws://{addr}/ws"), MaybeTlsStream::Plain(tcp)).await.unwrap();
        let args = ClientArgs { keepalive: OptionalDuration::NONE, channel_timeout: OptionalDuration::from_secs(3), ..Default::default() };
        let (_stx, mut srx) = mpsc::channel::<StreamCommand>(1);
        let (_dtx, mut drx) = mpsc::channel::<Datagram>(1);
        let map = Mutex::new(ClientIdMaps::new());
        let (tx, rx) = oneshot::channel();
        let mut failed = Some(StreamCommand { tx, host: Bytes::from_static(b"example.com"), port: 80 });
        let verdict = tokio::select! {
            r = on_connected(&args, ws_stream, &mut srx, &mut failed, &mut drx, &map) => format!("on_connected returned {r:?} before serving it"),
            s = rx => match s { Ok(_) => String::new(), Err(_) => "its channel to the listener was dropped".to_string() },
            () = time::sleep(Duration::from_secs(6)) => "not served within 6 s although the server accepts streams".to_string(),
        };
        server.abort();
        assert!(verdict.is_empty(), "VERIF-C19 a request parked by the previous connection: {verdict}");
    }
'''


def native_replay(which: str, scratch: Path):
    dst = scratch / "repo-c19c"
    if not dst.exists():
        shutil.copytree(REPO, dst, ignore=shutil.ignore_patterns("target", ".git", "SEED"))
        f = dst / "penguin" / "src" / "client" / "mod.rs"
        txt = f.read_text()
        if not re.search(r"#\[cfg\(test\)\]\s*mod\s+tests\s*\{", txt):
            return None, "no test module in client/mod.rs"
        i = txt.rstrip().rfind("}")
        f.write_text(txt[:i] + REPLAY + "}\n")
    env = dict(os.environ, CARGO_NET_OFFLINE="true", CARGO_TARGET_DIR=str(scratch / "target-c19c"), RUST_BACKTRACE="0")
    # reuse the dependency artefacts of /repo's own target directory when there is one (saves ~10 min)
    src_t = REPO / "target"
    if src_t.is_dir() and not src_t.is_symlink() and not (scratch / "target-c19c").exists():
        try:
            subprocess.run(["cp", "-a", "--reflink=auto", str(src_t), str(scratch / "target-c19c")], check=False, timeout=600)
        except Exception:
            pass
    p = subprocess.run(["cargo", "test", "-p", "rusty-penguin", "--lib", "--offline", which], cwd=dst, env=env, capture_output=True, text=True, timeout=3400)
    out = p.stdout + p.stderr
    m = re.search(r"test result: (ok|FAILED)\. (\d+) passed; (\d+) failed", out)
    if not m or int(m.group(2)) + int(m.group(3)) == 0:
        return None, out[-1500:]
    msg = re.findall(r"VERIF-C19[^\n]*", out)
    return (m.group(1) == "FAILED"), (msg[0] if msg else out[-300:])


def main():
    tier = "quick"
    for i, a in enumerate(sys.argv):
        if a == "--tier":
            tier = sys.argv[i + 1]
    t0 = time.time()
    res = dict(part="client connected loop + parked request (source-to-SMT)", file=str(SRC), steps=N_STEPS, queries=[])
    rc = 0
    lines = []
    scratch = Path(os.environ.get("VERIF_SCRATCH", "/var/tmp")) / f"verif-C19c-{os.getpid()}"
    known = []
    try:
        known = [k for k in json.loads((VERIF / "known_findings.json").read_text()).get("findings", []) if k.get("property") == "C19" and k.get("status") == "known"]
    except Exception:
        pass
    try:
        facts = extract(SRC.read_text(), SRC_RETRY.read_text())
        res["extracted"] = facts
        lbase, lq = loop_queries(facts)
        pbase, pq = parked_queries(facts)
        # vacuity witnesses: the encoding can reach (a) a clean task end observed by the loop,
        # (b) a return with a retryable error, (c) a delivered and a parked request
        wit = {}
        kinds_ = [a["kind"] for a in facts["loop_arms"]]
        reqi = kinds_.index("REQ") if "REQ" in kinds_ else -1
        for name, q in (("task_ends_cleanly_and_loop_sees_it", lbase + "(assert (or " + " ".join(f"(and live{i} (= t{i} 1))" for i in range(N_STEPS)) + "))\n"),
                        ("task_ends_with_error_and_loop_sees_it", lbase + "(assert (or " + " ".join(f"(and live{i} (= t{i} 2))" for i in range(N_STEPS)) + "))\n"),
                        ("request_arm_picked_on_live_mux", lbase + "(assert (or " + " ".join(f"(and live{i} (not dead{i}) req{i} (= pick{i} {reqi}))" for i in range(N_STEPS)) + "))\n"),
                        ("request_times_out_then_answered", pbase + "(assert (and (= how1 2) (= how2 0)))\n"),
                        ("?loop_returns_retryable", lbase + "(assert (or " + " ".join(f"(= out{i} 2)" for i in range(N_STEPS)) + "))\n"),
                        ("?request_parked_then_delivered", pbase + "(assert (and parked1 delivered2))\n")):
            wit[name] = run_solver(["/usr/bin/z3", "-in", "-smt2"], q + "(check-sat)\n")[0]
        res["witnesses"] = wit
        if any(v != "sat" for k, v in wit.items() if not k.startswith("?")):
            rc = 2
            lines.append(f"INCONCLUSIVE property=C19 reason=vacuous connected-loop encoding: {wit}")
        replayed = {}
        for name, q in lq + pq:
            if rc == 2:
                break
            r1, o1, t1 = run_solver(["/usr/bin/z3", "-in", "-smt2"], q + "(check-sat)\n")
            r2, o2, t2 = run_solver(["cvc5", "--lang", "smt2"], q + "(check-sat)\n")
            ent = dict(name=name, z3=r1, cvc5=r2, z3_s=round(t1, 3), cvc5_s=round(t2, 3))
            res["queries"].append(ent)
            if r1 != r2 or r1 not in ("sat", "unsat"):
                rc = 2
                lines.append(f"INCONCLUSIVE property=C19 reason=solvers disagree or failed on {name!r} (z3={r1} cvc5={r2})")
                break
            if r1 == "unsat":
                continue
            # counterexample
            if name.startswith("L"):
                names = [f"{v}{i}" for i in range(N_STEPS) for v in ("end", "req", "dg", "inn", "cc", "pick", "call", "t", "out")]
                vals = get_model(q, names)
                kinds = [a["kind"] for a in facts["loop_arms"]]
                trace = []
                for i in range(N_STEPS):
                    o = vals.get(f"out{i}", -1)
                    if o == -1:
                        break
                    trace.append(dict(step=i, task={0: "running", 1: "ended Ok", 2: "ended Err", 3: "result already taken"}.get(vals.get(f"t{i}")),
                                      local_events=[n for n, v in (("stream request", f"req{i}"), ("outgoing datagram", f"dg{i}"), ("ctrl-c", f"cc{i}")) if vals.get(v) == "true"],
                                      arm=(kinds[vals.get(f"pick{i}", 0)] if o != 5 else None),
                                      outcome={0: "continue", 1: "break", 2: "return Err (retryable)", 3: "return Err (not retryable)", 4: "return Ok", 5: "select! sleeps: no arm ready"}.get(o)))
                ent["counterexample"] = trace
                scenario = "verif_c19_connected_orderly_close"
            else:
                vals = get_model(q, ["how1", "how2"])
                hows = {0: "answered Ok", 1: "answered Err", 2: "timed out", 3: "ctrl-c"}
                ent["counterexample"] = dict(first_attempt=hows.get(vals.get("how1")), next_connection=hows.get(vals.get("how2")))
                if name.startswith("P1"):
                    scenario = "verif_c19_connected_request_refused_parks" if vals.get("how1") == 1 else "verif_c19_connected_request_timeout_parks"
                else:
                    # both start with a parked request, i.e. go through the prelude
                    scenario = {1: "verif_c19_connected_request_refused_parks", 2: "verif_c19_connected_parked_timeout_reparks"}.get(vals.get("how2"), "verif_c19_connected_parked_served_first")
            if scenario not in replayed:
                scratch.mkdir(parents=True, exist_ok=True)
                replayed[scenario] = native_replay(scenario, scratch)
            rep, detail = replayed[scenario]
            ent["native_replay"] = dict(test=scenario, reproduced=rep, detail=str(detail)[:600])
            rp = EVID / "replay" / f"C19-connected_{name.split(':')[0].lower()}.json"
            rp.parent.mkdir(parents=True, exist_ok=True)
            rp.write_text(json.dumps(dict(property="C19", query=name, extracted=facts, counterexample=ent["counterexample"], native=ent["native_replay"]), indent=1))
            if rep:
                kn = [k for k in known if k.get("harness") == "connected_loop" and k.get("query") == name.split(":")[0]]
                if kn:
                    lines.append(f"KNOWN-FINDING: property=C19 {kn[0].get('what', name)}")
                    ent["known_finding"] = True
                else:
                    rc = 1 if rc == 0 else rc
                    lines.append(f"VIOLATION property=C19 replay={rp}")
                    lines.append(f"  connected loop, {name}: {json.dumps(ent['counterexample'])[:700]}")
                    lines.append(f"  native: {str(detail)[:300]}")
            elif rep is None:
                rc = 2
                lines.append(f"INCONCLUSIVE property=C19 reason=connected-loop replay could not be built/run: {str(detail)[-300:]}")
            else:
                rc = 2 if rc == 0 else rc
                lines.append(f"INCONCLUSIVE property=C19 reason=connected-loop counterexample for {name!r} did not reproduce against the real on_connected ({scenario})")
    except Inconclusive as e:
        rc = 2
        res["inconclusive"] = str(e)
        lines.append(f"INCONCLUSIVE property=C19 reason=client connected loop: {e}")
    except Exception as e:  # noqa: a failure of the tool itself is never a verdict about the code
        rc = 2
        res["inconclusive"] = repr(e)
        lines.append(f"INCONCLUSIVE property=C19 reason=client connected loop: tool error {e!r}")
    finally:
        shutil.rmtree(scratch, ignore_errors=True)
    res["wall_s"] = round(time.time() - t0, 2)
    res["verdict"] = {0: "holds within the bounds", 1: "violation", 2: "inconclusive"}[rc]
    evp = EVID / "C19.json"
    try:
        ev = json.loads(evp.read_text())
        cov = ev.setdefault("coverage", {})
        cov["connected_loop"] = res
        nq = len(res["queries"])
        nuns = sum(1 for q in res["queries"] if q["z3"] == "unsat" and q["cvc5"] == "unsat")
        cov["obligations"] = cov.get("obligations", 0) + nq
        cov["discharged"] = cov.get("discharged", 0) + nuns
        cov["evaluations"] = cov.get("evaluations", 0) + nq
        cov["distinct_nontrivial"] = cov.get("distinct_nontrivial", 0) + (nq if rc != 2 else 0)
        fe = cov.setdefault("functions_encoded", [])
        for fn in ("rusty_penguin::client::on_connected (main loop select!, source-to-SMT)", "rusty_penguin::client::get_send_stream_chan (source-to-SMT)",
                   "rusty_penguin::client::maybe_retryable (unit variants of client::Error, source-level)"):
            if fn not in fe:
                fe.append(fn)
        cov.setdefault("bounds", {})["connected_loop"] = (f"{N_STEPS} iterations of the main loop; the task ends Ok/Err before any iteration or never; every arrival pattern of stream requests, "
                                                          "outgoing/incoming datagrams and Ctrl-C; every arm select! may pick; every result of the calls consistent with the dead-multiplexor contract; "
                                                          "one request through two consecutive connections (answered Ok/Err, timed out, Ctrl-C)")
        oc = cov.setdefault("outside_claim", [])
        note = "connected loop: tokio::select!'s semantics, JoinSet / Multiplexor behaviour after the task's end and the listeners' side of the request channel are modelled from their documentation, not executed; which concrete errors are retryable beyond the unit variants is not examined"
        if isinstance(oc, list) and note not in oc:
            oc.append(note)
        ev["wall_s"] = round(ev.get("wall_s", 0) + res["wall_s"], 2)
        if rc == 1:
            ev["violations"] = ev.get("violations", 0) + 1
        evp.write_text(json.dumps(ev, indent=1))
    except Exception as e:  # noqa
        lines.append(f"INCONCLUSIVE property=C19 reason=cannot merge the connected-loop result into evidence/C19.json: {e!r}")
        rc = rc or 2
    qsum = " ".join(f"{q['name'].split(':')[0]}={q['z3']}" for q in res["queries"])
    lines.append(f"C19 [{tier}] connected loop: arms={[a['kind'] for a in res.get('extracted', {}).get('loop_arms', [])]} {qsum} wall={res['wall_s']}s -> exit {rc}")
    print("\n".join(lines))
    return rc


if __name__ == "__main__":
    sys.exit(main())
