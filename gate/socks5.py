#!/usr/bin/env python3
"""C18, second part — the SOCKS5 request reader (`penguin_socks::v5::read_request` / `read_address`),
decided by source-to-SMT translation.

The Kani instances of this reader (c18_v5req_*) do not finish (three nested coroutines, io::Error
drop glue at every await point: 365 k steps / 20 GB even with std's address formatting cut out).
The reader itself is a straight-line decoder, so this tool

 1. reads the CURRENT penguin-socks/src/v5.rs and magics.rs and extracts, over a deliberately tiny
    statement grammar, `read_request` and `read_address`: fixed-width reads (`read_u8`, `read_u16`),
    the version guard, buffers (`[0; N]`, `vec![0; usize::from(len)]`, `Vec::with_capacity(..)`),
    `read_exact`, a single `take(..).read_buf(..)`, the `match address_type` arms with what they
    return (`Ipv4Addr::from(addr).to_string().into()`, `Ipv6Addr::…`, `addr`), the reply written
    for an unknown address type, and the final `Ok((command, address, port))`;
 2. executes that statement list symbolically over a message of symbolic length n (0..N_MAX, default
    300: every domain length 0..255 and every truncation point) whose octets are an uninterpreted
    function, with tokio's documented semantics for the read helpers (`read_uN` / `read_exact`
    fail with UnexpectedEof when the input ends first and are indifferent to how the input is
    segmented; `read_buf` performs ONE read and takes between 1 and min(capacity, available) octets —
    how many is chosen by the solver, i.e. every segmentation of the input);
 3. asks z3 AND cvc5 whether the outcome (Ok/Err class, command, which octets form the address and how
    they are rendered, port, octets consumed, reply written) can differ from RFC 1928's;
 4. on `sat`, writes the message out, replays it natively against the real
    `penguin_socks::v5::read_request` over an in-memory stream that delivers one octet per read,
    next to an independent reference parser, and reports a violation only if they differ.

Address rendering (`to_string` of std's Ipv4Addr/Ipv6Addr) is an uninterpreted function of the
address octets on both sides.  A construct outside the grammar => INCONCLUSIVE (exit 2).
"""
from __future__ import annotations

import json
import os
import re
import shutil
import subprocess
import sys
import time
from pathlib import Path

VERIF = Path(__file__).resolve().parent.parent
REPO = Path(os.environ.get("VERIF_REPO", "/repo"))
EVID = Path(os.environ.get("VERIF_EVIDENCE_DIR", str(VERIF / "evidence")))
SRC = REPO / "penguin-socks" / "src" / "v5.rs"
MAGICS = REPO / "penguin-socks" / "src" / "magics.rs"
N_MAX = int(os.environ.get("VERIF_C18_NMAX", "300"))


class Inconclusive(Exception):
    pass


def strip_comments(s: str) -> str:
    return re.sub(r"//[^\n]*", "", s)


def balanced(src: str, i: int) -> int:
    pairs = {"{": "}", "(": ")", "[": "]"}
    o, c = src[i], pairs[src[i]]
    d, j, ins = 0, i, False
    while j < len(src):
        ch = src[j]
        if ins:
            if ch == "\\":
                j += 1
            elif ch == '"':
                ins = False
        elif ch == '"':
            ins = True
        elif ch == o:
            d += 1
        elif ch == c:
            d -= 1
            if d == 0:
                return j
        j += 1
    raise Inconclusive("unbalanced brackets")


def fn_body(src: str, name: str) -> str:
    m = re.search(r"async\s+fn\s+" + name + r"\s*<", src) or re.search(r"async\s+fn\s+" + name + r"\s*\(", src)
    if not m:
        raise Inconclusive(f"async fn {name} not found")
    p = src.index("(", m.end() - 1)
    pe = balanced(src, p)
    i = src.index("{", pe)
    j = balanced(src, i)
    return src[i + 1:j]


def norm(s: str) -> str:
    s = " ".join(s.split())
    s = re.sub(r"\s*\.\s*", ".", s)
    s = re.sub(r"\(\s+", "(", s)
    s = re.sub(r"\s+\)", ")", s)
    s = re.sub(r",\s*\]", "]", s)
    s = re.sub(r",\s*\)", ")", s)
    return s


MAPERR = r"\.map_err\(\|e\| Error::ProcessSocksRequest\(\"[^\"]*\", e\)\)\?;"


def magics() -> dict:
    out = {}
    for m in re.finditer(r"pub const (\w+): u8 = (0x[0-9a-fA-F]+|\d+);", MAGICS.read_text()):
        out[m.group(1)] = int(m.group(2), 0)
    return out


def parse_stmts(body: str, mg: dict, inside_arm: bool):
    """statement list of a function / match-arm body"""
    s = norm(strip_comments(body))
    out = []
    while s:
        s = s.strip()
        if not s:
            break
        m = re.match(r"let (?:mut )?(\w+) = stream\.read_(u8|u16)\(\)\.await" + MAPERR, s)
        if m:
            out.append(("read", m.group(1), 1 if m.group(2) == "u8" else 2))
            s = s[m.end():]
            continue
        m = re.match(r"if (\w+) != magics::(\w+) \{ return Err\(Error::SocksVersion\((\w+)\)\); \}", s)
        if m:
            if m.group(1) != m.group(3) or m.group(2) not in mg:
                raise Inconclusive("version guard outside the grammar")
            out.append(("guard_ne_version", m.group(1), mg[m.group(2)]))
            s = s[m.end():]
            continue
        m = re.match(r"let (\w+) = read_address\(stream\)\.await\?;", s)
        if m:
            out.append(("call_address", m.group(1)))
            s = s[m.end():]
            continue
        m = re.match(r"let mut (\w+) = \[0; (\d+)\];", s)
        if m:
            out.append(("buf_fixed", m.group(1), int(m.group(2))))
            s = s[m.end():]
            continue
        m = re.match(r"let mut (\w+) = vec!\[0; usize::from\((\w+)\)\];", s)
        if m:
            out.append(("buf_len", m.group(1), m.group(2)))
            s = s[m.end():]
            continue
        m = re.match(r"let mut (\w+) = Vec::with_capacity\(usize::from\((\w+)\)\);", s)
        if m:
            out.append(("buf_cap", m.group(1), m.group(2)))
            s = s[m.end():]
            continue
        m = re.match(r"stream\.read_exact\(&mut (\w+)\)\.await" + MAPERR, s)
        if m:
            out.append(("read_exact", m.group(1)))
            s = s[m.end():]
            continue
        m = re.match(r"stream\.take\(u64::from\((\w+)\)\)\.read_buf\(&mut (\w+)\)\.await" + MAPERR, s)
        if m:
            out.append(("read_buf_take", m.group(2), m.group(1)))
            s = s[m.end():]
            continue
        m = re.match(r"match (\w+) \{", s)
        if m:
            e = balanced(s, m.end() - 1)
            arms_txt = s[m.end():e]
            arms = []
            p = 0
            while arms_txt[p:].strip():
                ma = re.match(r"\s*(magics::(\w+)|_) => \{", arms_txt[p:])
                if not ma:
                    raise Inconclusive(f"match arm outside the grammar near {arms_txt[p:p+60]!r}")
                bi = p + ma.end() - 1
                be = balanced(arms_txt, bi)
                key = None if ma.group(1) == "_" else ma.group(2)
                if key is not None and key not in mg:
                    raise Inconclusive(f"unknown constant magics::{key}")
                arms.append((None if key is None else mg[key], parse_stmts(arms_txt[bi + 1:be], mg, True)))
                p = be + 1
                while p < len(arms_txt) and arms_txt[p] in ", ":
                    p += 1
            out.append(("match", m.group(1), arms))
            s = s[e + 1:]
            continue
        m = re.match(r"stream\.write_all\(&\[([^\]]*)\]\)\.await" + MAPERR, s)
        if m:
            vals = []
            for x in m.group(1).split(","):
                x = x.strip()
                if not x:
                    continue
                mm = re.fullmatch(r"magics::(\w+)", x)
                if mm:
                    if mm.group(1) not in mg:
                        raise Inconclusive(f"unknown constant magics::{mm.group(1)}")
                    vals.append(mg[mm.group(1)])
                else:
                    vals.append(int(x, 0))
            out.append(("write", vals))
            s = s[m.end():]
            continue
        m = re.match(r"stream\.flush\(\)\.await" + MAPERR, s)
        if m:
            out.append(("flush",))
            s = s[m.end():]
            continue
        m = re.match(r"Ok\(Ipv4Addr::from\((\w+)\)\.to_string\(\)\.into\(\)\)$", s)
        if m:
            out.append(("ret_addr", "render4", m.group(1)))
            s = ""
            continue
        m = re.match(r"Ok\(Ipv6Addr::from\((\w+)\)\.to_string\(\)\.into\(\)\)$", s)
        if m:
            out.append(("ret_addr", "render6", m.group(1)))
            s = ""
            continue
        m = re.match(r"Ok\((\w+)\)$", s)
        if m and inside_arm:
            out.append(("ret_addr", "raw", m.group(1)))
            s = ""
            continue
        m = re.match(r"Err\(Error::AddressType\((\w+)\)\)$", s)
        if m:
            out.append(("ret_err_atyp", m.group(1)))
            s = ""
            continue
        m = re.match(r"Ok\(\((\w+), (\w+), (\w+)\)\)$", s)
        if m:
            out.append(("ret_request", m.group(1), m.group(2), m.group(3)))
            s = ""
            continue
        raise Inconclusive(f"statement outside the grammar near {s[:90]!r}")
    return out


# ---- symbolic execution of the statement list -> SMT terms ------------------------------------
class Sym:
    def __init__(self):
        self.decls = []
        self.asserts = []
        self.idx_terms = []
        self.fresh = 0

    def byte(self, pos: str) -> str:
        self.idx_terms.append(pos)
        return f"(b {pos})"

    def new_int(self, name: str) -> str:
        self.fresh += 1
        v = f"{name}{self.fresh}"
        self.decls.append(f"(declare-const {v} Int)")
        return v


def run(stmts, S: Sym, env: dict, pos: str, pc: str, written: tuple, leaves: list, addr_fn=None):
    """Executes `stmts`; appends (path condition, outcome dict) leaves.  Returns nothing: every path
    ends in a leaf (return / error)."""
    if not stmts:
        raise Inconclusive("a path falls off the end of a function body")
    st, rest = stmts[0], stmts[1:]
    k = st[0]
    if k == "read":
        _, var, w = st
        ok = f"(<= (+ {pos} {w}) n)"
        leaves.append((f"(and {pc} (not {ok}))", dict(status="err_io", consumed_le=True, pos=pos, written=written)))
        if w == 1:
            val = S.byte(pos)
        else:
            val = f"(+ (* 256 {S.byte(pos)}) {S.byte('(+ ' + pos + ' 1)')})"
        env = dict(env, **{var: ("int", val)})
        return run(rest, S, env, f"(+ {pos} {w})", f"(and {pc} {ok})", written, leaves, addr_fn)
    if k == "guard_ne_version":
        _, var, const = st
        v = env[var][1]
        leaves.append((f"(and {pc} (not (= {v} {const})))", dict(status="err_version", pos=pos, written=written)))
        return run(rest, S, env, pos, f"(and {pc} (= {v} {const}))", written, leaves, addr_fn)
    if k == "buf_fixed":
        env = dict(env, **{st[1]: ("buf", dict(cap=str(st[2]), start=None, len="0", fill_exact=True))})
        return run(rest, S, env, pos, pc, written, leaves, addr_fn)
    if k in ("buf_len", "buf_cap"):
        ln = env[st[2]][1]
        env = dict(env, **{st[1]: ("buf", dict(cap=ln, start=None, len="0", fill_exact=(k == "buf_len")))})
        return run(rest, S, env, pos, pc, written, leaves, addr_fn)
    if k == "read_exact":
        b = env[st[1]][1]
        if not b["fill_exact"]:
            # read_exact into an empty Vec (with_capacity) reads nothing
            cap = "0"
        else:
            cap = b["cap"]
        ok = f"(<= (+ {pos} {cap}) n)"
        leaves.append((f"(and {pc} (not {ok}))", dict(status="err_io", pos=pos, written=written)))
        env = dict(env, **{st[1]: ("buf", dict(b, start=pos, len=cap))})
        return run(rest, S, env, f"(+ {pos} {cap})", f"(and {pc} {ok})", written, leaves, addr_fn)
    if k == "read_buf_take":
        # ONE read of at most min(limit, spare capacity, available) octets; at least 1 unless one of them is 0
        b = env[st[1]][1]
        lim = env[st[2]][1]
        kk = S.new_int("k")
        avail = f"(- n {pos})"
        S.asserts.append(f"(and (>= {kk} 0) (<= {kk} {lim}) (<= {kk} {b['cap']}) (<= {kk} {avail}))")
        S.asserts.append(f"(=> (and (> {lim} 0) (> {b['cap']} 0) (> {avail} 0)) (>= {kk} 1))")
        env = dict(env, **{st[1]: ("buf", dict(b, start=pos, len=kk))})
        return run(rest, S, env, f"(+ {pos} {kk})", pc, written, leaves, addr_fn)
    if k == "match":
        _, var, arms = st
        v = env[var][1]
        consts = [c for c, _ in arms if c is not None]
        for c, body in arms:
            cond = f"(= {v} {c})" if c is not None else ("(and " + " ".join(f"(not (= {v} {x}))" for x in consts) + ")" if consts else "true")
            run(body + rest, S, env, pos, f"(and {pc} {cond})", written, leaves, addr_fn)
        return
    if k == "write":
        return run(rest, S, env, pos, pc, written + tuple(st[1]), leaves, addr_fn)
    if k == "flush":
        return run(rest, S, env, pos, pc, written, leaves, addr_fn)
    if k == "ret_addr":
        _, kind, var = st
        b = env[var][1]
        if b["start"] is None:
            raise Inconclusive("address returned from a buffer that was never filled")
        return addr_fn(dict(kind=kind, start=b["start"], len=b["len"]), pos, pc, written, leaves)
    if k == "ret_err_atyp":
        leaves.append((pc, dict(status="err_atyp", pos=pos, written=written)))
        return
    if k == "call_address":
        def cont(addr, pos2, pc2, written2, leaves2):
            run(rest, S, dict(env, **{st[1]: ("addr", addr)}), pos2, pc2, written2, leaves2, addr_fn)
        return run(ADDRESS_STMTS, S, {}, pos, pc, written, leaves, cont)
    if k == "ret_request":
        _, c, a, p = st
        leaves.append((pc, dict(status="ok", cmd=env[c][1], addr=env[a][1], port=env[p][1], pos=pos, written=written)))
        return
    raise Inconclusive(f"statement kind {k}")


ADDRESS_STMTS = []
KINDS = {"render4": 1, "render6": 2, "raw": 3}
UNSUP_REPLY = (5, 8, 0, 1, 0, 0, 0, 0, 0, 0)


def build_query(req_stmts, S: Sym):
    leaves = []
    run(req_stmts, S, {}, "0", "true", (), leaves)
    # implementation outcome as ite chains over the leaves (path conditions are disjoint and total)
    def field(getter, default):
        t = default
        for pc, o in reversed(leaves):
            t = f"(ite {pc} {getter(o)} {t})"
        return t
    stat = {"ok": 0, "err_io": 1, "err_version": 2, "err_atyp": 3}
    i_status = field(lambda o: str(stat[o["status"]]), "(- 1)")
    i_cmd = field(lambda o: o.get("cmd", "0"), "0")
    i_kind = field(lambda o: str(KINDS[o["addr"]["kind"]]) if "addr" in o else "0", "0")
    i_start = field(lambda o: o["addr"]["start"] if "addr" in o else "0", "0")
    i_len = field(lambda o: o["addr"]["len"] if "addr" in o else "0", "0")
    i_port = field(lambda o: o.get("port", "0"), "0")
    i_pos = field(lambda o: o["pos"], "0")
    i_wr = field(lambda o: "1" if o["written"] == UNSUP_REPLY else ("0" if o["written"] == () else "2"), "0")
    # specification (RFC 1928 section 4) ---------------------------------------------------
    b0, b1, b3, b4 = S.byte("0"), S.byte("1"), S.byte("3"), S.byte("4")
    alen = f"(ite (= {b3} 1) 4 (ite (= {b3} 4) 16 (+ 1 {b4})))"
    known = f"(or (= {b3} 1) (= {b3} 3) (= {b3} 4))"
    total = f"(+ 4 {alen} 2)"
    s_ok = f"(and (>= n 4) (= {b0} 5) {known} (=> (= {b3} 3) (>= n 5)) (>= n {total}))"
    s_version = f"(and (>= n 1) (not (= {b0} 5)))"
    s_unsup = f"(and (>= n 4) (= {b0} 5) (not {known}))"
    s_status = f"(ite {s_version} 2 (ite {s_unsup} 3 (ite {s_ok} 0 1)))"
    s_kind = f"(ite (= {b3} 1) 1 (ite (= {b3} 4) 2 3))"
    s_start = f"(ite (= {b3} 3) 5 4)"
    s_len = f"(ite (= {b3} 1) 4 (ite (= {b3} 4) 16 {b4}))"
    pp = f"(+ 4 {alen})"
    s_port = f"(+ (* 256 {S.byte(pp)}) {S.byte('(+ ' + pp + ' 1)')})"
    text = "(set-logic ALL)\n(declare-const n Int)\n(declare-fun b (Int) Int)\n" + "\n".join(S.decls) + "\n"
    text += f"(assert (and (>= n 0) (<= n {N_MAX})))\n"
    for a in S.asserts:
        text += f"(assert {a})\n"
    for t in sorted(set(S.idx_terms)):
        text += f"(assert (and (>= (b {t}) 0) (<= (b {t}) 255)))\n"
    defs = dict(i_status=i_status, i_cmd=i_cmd, i_kind=i_kind, i_start=i_start, i_len=i_len, i_port=i_port, i_pos=i_pos, i_wr=i_wr,
                s_status=s_status, s_kind=s_kind, s_start=s_start, s_len=s_len, s_port=s_port, s_total=total)
    for kname, v in defs.items():
        text += f"(define-fun {kname} () Int {v})\n"
    # which error a rejected request fails with is not part of the property: truncated input and a
    # wrong version are one class ("rejected, nothing written"); an unknown address type is its own
    # class because a reply must be written
    text += "(define-fun cls ((s Int)) Int (ite (= s 2) 1 s))\n"
    diff = ("(or (not (= (cls i_status) (cls s_status))) "
            f"(and (= s_status 0) (or (not (= i_cmd {b1})) (not (= i_kind s_kind)) (not (= i_start s_start)) (not (= i_len s_len)) (not (= i_port s_port)) (not (= i_pos s_total)) (not (= i_wr 0)))) "
            "(and (= s_status 3) (or (not (= i_wr 1)) (not (= i_pos 4)))) "
            "(and (or (= s_status 1) (= s_status 2)) (not (= i_wr 0))) "
            "(> i_pos n))")
    return text, diff, leaves


def run_solver(cmd, text, timeout=300):
    t0 = time.time()
    try:
        p = subprocess.run(cmd, input=text, capture_output=True, text=True, timeout=timeout)
    except subprocess.TimeoutExpired:
        return "timeout", "", time.time() - t0
    out = p.stdout + p.stderr
    if "(error" in out or "error" in p.stderr.lower():
        return "error", out, time.time() - t0
    first = out.strip().splitlines()[0].strip() if out.strip() else ""
    return first, out, time.time() - t0


REPLAY = r'''
// generated by /verif/gate/socks5.py: the real reader over a stream that delivers ONE octet per read
use penguin_socks::v5;
use std::pin::Pin;
use std::task::{Context, Poll, RawWaker, RawWakerVTable, Waker};
use tokio::io::{AsyncRead, AsyncWrite, ReadBuf};

struct OneByOne { data: Vec<u8>, pos: usize, out: Vec<u8> }
impl AsyncRead for OneByOne {
    fn poll_read(mut self: Pin<&mut Self>, _: &mut Context<'_>, buf: &mut ReadBuf<'_>) -> Poll<std::io::Result<()>> {
        if self.pos < self.data.len() && buf.remaining() > 0 {
            let b = self.data[self.pos];
            buf.put_slice(&[b]);
            self.pos += 1;
        }
        Poll::Ready(Ok(()))
    }
}
impl AsyncWrite for OneByOne {
    fn poll_write(mut self: Pin<&mut Self>, _: &mut Context<'_>, b: &[u8]) -> Poll<std::io::Result<usize>> { self.out.extend_from_slice(b); Poll::Ready(Ok(b.len())) }
    fn poll_flush(self: Pin<&mut Self>, _: &mut Context<'_>) -> Poll<std::io::Result<()>> { Poll::Ready(Ok(())) }
    fn poll_shutdown(self: Pin<&mut Self>, _: &mut Context<'_>) -> Poll<std::io::Result<()>> { Poll::Ready(Ok(())) }
}
fn noop_waker() -> Waker {
    fn clone(_: *const ()) -> RawWaker { RawWaker::new(std::ptr::null(), &VT) }
    fn noop(_: *const ()) {}
    static VT: RawWakerVTable = RawWakerVTable::new(clone, noop, noop, noop);
    unsafe { Waker::from_raw(RawWaker::new(std::ptr::null(), &VT)) }
}
/// RFC 1928 section 4, written independently of the crate: Ok((cmd, addr text, port, consumed)) or Err
fn reference(m: &[u8]) -> Result<(u8, Vec<u8>, u16, usize), &'static str> {
    if m.is_empty() { return Err("truncated"); }
    if m[0] != 5 { return Err("version"); }
    if m.len() < 4 { return Err("truncated"); }
    let (start, alen, text): (usize, usize, Option<Vec<u8>>) = match m[3] {
        1 => (4, 4, if m.len() >= 8 { Some(std::net::Ipv4Addr::new(m[4], m[5], m[6], m[7]).to_string().into_bytes()) } else { None }),
        4 => (4, 16, if m.len() >= 20 { let mut a = [0u8; 16]; a.copy_from_slice(&m[4..20]); Some(std::net::Ipv6Addr::from(a).to_string().into_bytes()) } else { None }),
        3 => { if m.len() < 5 { return Err("truncated"); } (5, m[4] as usize, None) }
        _ => return Err("atyp"),
    };
    if m.len() < start + alen + 2 { return Err("truncated"); }
    let addr = text.unwrap_or_else(|| m[start..start + alen].to_vec());
    Ok((m[1], addr, u16::from_be_bytes([m[start + alen], m[start + alen + 1]]), start + alen + 2))
}
#[test]
fn verif_c18_v5_request_replay() {
    let msg: Vec<u8> = vec![@BYTES@];
    let mut s = OneByOne { data: msg.clone(), pos: 0, out: Vec::new() };
    let w = noop_waker();
    let mut cx = Context::from_waker(&w);
    let got = {
        let mut fut = Box::pin(v5::read_request(&mut s));
        match fut.as_mut().poll(&mut cx) { Poll::Ready(r) => r, Poll::Pending => panic!("VERIF-C18 reader pending on an always-ready stream") }
    };
    let want = reference(&msg);
    let verdict = match (&got, &want) {
        (Ok((c, a, p)), Ok((wc, wa, wp, used))) => {
            if c != wc || a != wa || p != wp { format!("returned ({c}, {a:?}, {p}), RFC 1928 assigns ({wc}, {wa:?}, {wp})") }
            else if s.pos != *used { format!("consumed {} octets, the request has {used}", s.pos) }
            else if !s.out.is_empty() { "wrote a reply although the request is well-formed".to_string() }
            else { String::new() }
        }
        (Ok(x), Err(e)) => format!("accepted {x:?} although the request is malformed ({e})"),
        (Err(e), Ok(x)) => format!("rejected a well-formed request {x:?} with {e:?}"),
        (Err(_), Err("atyp")) => if s.out != [5, 8, 0, 1, 0, 0, 0, 0, 0, 0] { format!("unknown address type answered with {:?}", s.out) } else { String::new() },
        (Err(_), Err(_)) => if !s.out.is_empty() { "wrote a reply to a truncated / wrong-version request".to_string() } else { String::new() },
    };
    assert!(verdict.is_empty(), "VERIF-C18 SOCKS5 request {msg:?} delivered one octet at a time: {verdict}");
}
'''


def native_replay(msg: list[int], scratch: Path):
    dst = scratch / "repo-c18s"
    shutil.copytree(REPO, dst, ignore=shutil.ignore_patterns("target", ".git", "SEED"))
    t = dst / "penguin-socks" / "tests"
    t.mkdir(exist_ok=True)
    (t / "verif_c18_replay.rs").write_text(REPLAY.replace("@BYTES@", ", ".join(str(x) for x in msg)))
    env = dict(os.environ, CARGO_NET_OFFLINE="true", CARGO_TARGET_DIR=str(scratch / "target-c18s"), RUST_BACKTRACE="0")
    p = subprocess.run(["cargo", "test", "-p", "penguin-socks", "--offline", "--test", "verif_c18_replay"], cwd=dst, env=env, capture_output=True, text=True, timeout=3000)
    out = p.stdout + p.stderr
    m = re.search(r"test result: (ok|FAILED)\. (\d+) passed; (\d+) failed", out)
    if not m or int(m.group(2)) + int(m.group(3)) == 0:
        return None, out[-1200:]
    msgs = re.findall(r"VERIF-C18[^\n]*", out)
    return (m.group(1) == "FAILED"), (msgs[0] if msgs else out[-300:])


def main():
    global ADDRESS_STMTS
    tier = "quick"
    for i, a in enumerate(sys.argv):
        if a == "--tier":
            tier = sys.argv[i + 1]
    t0 = time.time()
    res = dict(part="SOCKS5 request reader (source-to-SMT)", file=str(SRC), n_max=N_MAX, queries=[])
    rc, lines = 0, []
    scratch = Path(os.environ.get("VERIF_SCRATCH", "/var/tmp")) / f"verif-C18s-{os.getpid()}"
    try:
        mg = magics()
        src = SRC.read_text()
        req = parse_stmts(fn_body(src, "read_request"), mg, False)
        ADDRESS_STMTS = parse_stmts(fn_body(src, "read_address"), mg, False)
        res["extracted"] = dict(read_request=[s[0] if s[0] != "read" else f"read {s[1]}:{s[2]}" for s in req],
                                read_address=[s[0] if s[0] != "match" else "match " + s[1] + " {" + ", ".join(str(c) for c, _ in s[2]) + "}" for s in ADDRESS_STMTS])
        S = Sym()
        text, diff, leaves = build_query(req, S)
        res["paths"] = len(leaves)
        # vacuity witnesses (environment / specification only): each request class is reachable
        wit = {}
        for name, cond in (("well_formed_domain_255", "(and (= s_status 0) (= s_kind 3) (= s_len 255))"), ("well_formed_ipv6", "(and (= s_status 0) (= s_kind 2))"),
                           ("truncated", "(= s_status 1)"), ("unknown_atyp", "(= s_status 3)"), ("impl_accepts_something", "(= i_status 0)")):
            wit[name] = run_solver(["/usr/bin/z3", "-in", "-smt2"], text + f"(assert {cond})\n(check-sat)\n")[0]
        res["witnesses"] = wit
        if any(v != "sat" for v in wit.values()):
            raise Inconclusive(f"vacuous encoding: {wit}")
        q = text + f"(assert {diff})\n"
        r1, o1, t1 = run_solver(["/usr/bin/z3", "-in", "-smt2"], q + "(check-sat)\n")
        r2, o2, t2 = run_solver(["cvc5", "--lang", "smt2"], q + "(check-sat)\n")
        ent = dict(name=f"outcome of read_request == RFC 1928 for every message of 0..{N_MAX} octets and every segmentation", z3=r1, cvc5=r2, z3_s=round(t1, 3), cvc5_s=round(t2, 3))
        res["queries"].append(ent)
        if r1 != r2 or r1 not in ("sat", "unsat"):
            raise Inconclusive(f"solvers disagree or failed (z3={r1} cvc5={r2})")
        if r1 == "sat":
            # concrete message from the model: n and the octets at 0..n-1
            gv = "(get-value (n i_status s_status i_pos s_total i_len s_len))\n"
            p = subprocess.run(["/usr/bin/z3", "-in", "-smt2"], input=q + "(check-sat)\n" + gv, capture_output=True, text=True, timeout=300)
            vals = dict((k, int(v.replace("(- ", "-").replace(")", ""))) for k, v in re.findall(r"\((\w+)\s+((?:\(- \d+\))|\d+)\)", p.stdout))
            n = max(0, min(vals.get("n", 0), N_MAX))
            gb = "(get-value (" + " ".join(f"(b {i})" for i in range(n)) + "))\n" if n else ""
            msg = []
            if n:
                p2 = subprocess.run(["/usr/bin/z3", "-in", "-smt2"], input=q + "(check-sat)\n" + gb, capture_output=True, text=True, timeout=300)
                found = dict((int(i), int(v)) for i, v in re.findall(r"\(\(b (\d+)\) (\d+)\)", p2.stdout))
                msg = [min(255, max(0, found.get(i, 0x41))) for i in range(n)]
            ent["counterexample"] = dict(n=n, message=msg, model=vals)
            scratch.mkdir(parents=True, exist_ok=True)
            rep, detail = native_replay(msg, scratch)
            ent["native_replay"] = dict(reproduced=rep, detail=str(detail)[:600])
            rp = EVID / "replay" / "C18-v5_request_reader.json"
            rp.parent.mkdir(parents=True, exist_ok=True)
            rp.write_text(json.dumps(dict(property="C18", query=ent["name"], message=msg, model=vals, native=ent["native_replay"], extracted=res["extracted"]), indent=1))
            if rep:
                rc = 1
                lines.append(f"VIOLATION property=C18 replay={rp}")
                lines.append(f"  SOCKS5 request reader: {str(detail)[:400]}")
            elif rep is None:
                rc = 2
                lines.append(f"INCONCLUSIVE property=C18 reason=SOCKS5 request-reader replay could not be built/run: {str(detail)[-300:]}")
            else:
                rc = 2
                lines.append(f"INCONCLUSIVE property=C18 reason=SOCKS5 request-reader counterexample {msg} did not reproduce against the real reader")
    except Inconclusive as e:
        rc = 2
        res["inconclusive"] = str(e)
        lines.append(f"INCONCLUSIVE property=C18 reason=SOCKS5 request reader: {e}")
    except Exception as e:  # noqa: a failure of the tool itself is never a verdict about the code
        rc = 2
        res["inconclusive"] = repr(e)
        lines.append(f"INCONCLUSIVE property=C18 reason=SOCKS5 request reader: tool error {e!r}")
    finally:
        shutil.rmtree(scratch, ignore_errors=True)
    res["wall_s"] = round(time.time() - t0, 2)
    res["verdict"] = {0: "holds within the bounds", 1: "violation", 2: "inconclusive"}[rc]
    evp = EVID / "C18.json"
    try:
        ev = json.loads(evp.read_text())
        cov = ev.setdefault("coverage", {})
        cov["v5_request_reader"] = res
        nq = len(res["queries"])
        nuns = sum(1 for q in res["queries"] if q["z3"] == "unsat" and q["cvc5"] == "unsat")
        cov["obligations"] = cov.get("obligations", 0) + nq
        cov["discharged"] = cov.get("discharged", 0) + nuns
        cov["evaluations"] = cov.get("evaluations", 0) + nq
        cov["distinct_nontrivial"] = cov.get("distinct_nontrivial", 0) + (nq if rc != 2 else 0)
        fe = cov.setdefault("functions_encoded", [])
        for fn in ("penguin_socks::v5::read_request (source-to-SMT)", "penguin_socks::v5::read_address (source-to-SMT)"):
            if fn not in fe:
                fe.append(fn)
        cov.setdefault("bounds", {})["v5_request_reader"] = (f"every message of 0..{N_MAX} octets (all octet values; every domain length 0..255, every truncation point, every address type octet) "
                                                             "and, where the code reads with read_buf, every segmentation of the input")
        ev["wall_s"] = round(ev.get("wall_s", 0) + res["wall_s"], 2)
        if rc == 1:
            ev["violations"] = ev.get("violations", 0) + 1
        evp.write_text(json.dumps(ev, indent=1))
    except Exception as e:  # noqa
        lines.append(f"INCONCLUSIVE property=C18 reason=cannot merge the request-reader result into evidence/C18.json: {e!r}")
        rc = rc or 2
    q = res["queries"][0] if res["queries"] else {}
    lines.append(f"C18 [{tier}] SOCKS5 request reader: paths={res.get('paths')} z3={q.get('z3')} cvc5={q.get('cvc5')} wall={res['wall_s']}s -> exit {rc}")
    print("\n".join(lines))
    return rc


if __name__ == "__main__":
    sys.exit(main())
