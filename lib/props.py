"""Per-property harness tables (what is run, in which profile, with which allowed panics)."""
from vdriver import H

PROPS = {}

SHIM_TRUST = {
    "bytes": "shim `bytes` (Bytes = leaked &'static [u8]; split/advance/truncate with the documented panics)",
    "tokio": "shim `tokio` (sequential mpsc/oneshot rings with real waker registration; io traits and *Ext helpers; virtual-clock time)",
    "hashbrown": "shim `hashbrown` (inline association list, capacity bound asserted)",
    "parking_lot_core": "shim `parking_lot_core` (park() panics = contended lock in sequential execution)",
    "tracing": "shim `tracing` (events expand to nothing / a scheduling hook)",
}

# Panics of the code under test that are an allowed outcome for an out-of-range argument.
# Matched against "<description> @ <function>".
PANIC_OOR = [
    r"out of bounds", r"out of range", r"advance past end of buffer", r"cannot advance past",
    r"mid > len", r"insertion index", r"removal index", r"range end index", r"range start index",
    r"slice index starts at", r"assertion failed: (at|mid|index|len|cnt) <= ",
    r"split_to out of bounds", r"split_off out of bounds",
]

# ---------------------------------------------------------------------------------------------
# C20
# ---------------------------------------------------------------------------------------------
def _c20():
    hs = []
    quick_shapes = {"s0", "s2", "s12"}

    def add(name, oor=False, thorough_only=False):
        shape = name.rsplit("_", 1)[-1]
        tier = "quick" if (shape in quick_shapes or not shape.startswith("s")) and not thorough_only else "thorough"
        # in-range: decided under `dev` (debug invariants on: stricter) first, `rel` second;
        # out-of-range: decided under `rel` (what a production build does); in `dev` the
        # crate's own debug invariant panics first, which is an allowed outcome.
        if oor:
            hs.append(H(name, tier=tier, profiles=("rel", "dev"), allow_panics=True,
                        note="argument past the end: panic allowed, silent corruption is not"))
        else:
            hs.append(H(name, tier=tier, profiles=("rel", "dev"), note="argument in range: nothing may fail"))

    for op, shapes_in, shapes_oor in [
        ("truncate", ["s0", "s2", "s12", "s213", "s31", "s111", "s333"], ["s0", "s2", "s12", "s213"]),
        ("advance", ["s0", "s2", "s12", "s213", "s111", "s333"], ["s0", "s12", "s213"]),
        ("split_off", ["s0", "s2", "s12", "s213", "s31", "s333"], ["s0", "s12", "s213"]),
        ("split_to", ["s0", "s2", "s12", "s213", "s333"], ["s0", "s12", "s213"]),
    ]:
        for s in shapes_in:
            add(f"c20_{op}_in_{s}")
        for s in shapes_oor:
            add(f"c20_{op}_oor_{s}", oor=True)
    for n in ["c20_push_seg2_s0", "c20_push_seg1_s12", "c20_push_seg3_s21", "c20_insert_in_seg2_s0", "c20_insert_in_seg1_s12",
              "c20_insert_in_seg2_s21", "c20_pop_s0", "c20_pop_s2", "c20_pop_s213", "c20_remove_in_s2", "c20_remove_in_s213",
              "c20_clear_s0", "c20_clear_s213"]:
        add(n)
    # an empty segment is an out-of-range argument in the property's sense
    for n in ["c20_push_empty_s0", "c20_push_empty_s12", "c20_insert_empty_s12", "c20_insert_empty_s0"]:
        hs.append(H(n, tier="quick", profiles=("rel", "dev"), allow_panics=True,
                    note="empty segment: panic or no-op allowed, an exposed empty chunk is not"))
    for n in ["c20_insert_oor_seg1_s12", "c20_remove_oor_s0", "c20_remove_oor_s12"]:
        add(n, oor=True)
    for n in ["c20_three_steps_s12", "c20_three_steps_s213"]:
        add(n, thorough_only=True)
    for n in ["c20_cow_split_to_in", "c20_cow_split_off_in", "c20_cow_truncate_in", "c20_cow_advance_in"]:
        hs.append(H(n, tier="quick", profiles=("dev", "rel"), note="CowBytes op, argument in range, both variants"))
    for n in ["c20_cow_split_to_oor", "c20_cow_split_off_oor", "c20_cow_truncate_oor", "c20_cow_advance_oor"]:
        hs.append(H(n, tier="quick", profiles=("rel", "dev"), allow_panics=True, note="CowBytes op, argument past the end"))
    for n in ["c20_variants_l0_l0", "c20_variants_l2_l2", "c20_variants_l3_l2", "c20_variants_l1_l3"]:
        hs.append(H(n, tier="quick" if n.endswith(("l0_l0", "l3_l2")) else "thorough", profiles=("dev", "rel"),
                    note="Temporary vs Static indistinguishable through accessors, eq, ord, hash"))
    return dict(
        kind="ext", module="c20", shims=["bytes", "tokio"],
        harnesses=hs,
        bounds=dict(chunks="<= 3 per chain (shapes enumerated concretely: [], [2], [1,2], [2,1,3]; thorough adds [3,1], [1,1,1], [3,3,3])",
                    chunk_len="1..3 bytes, contents fully symbolic, variant (Temporary/Static) symbolic per chunk",
                    argument="symbolic over [0,total] (in-range harnesses) and (total, total+2] (out-of-range harnesses); chunk index over [0,n] / (n, n+1]",
                    steps="one operation from every bounded valid chain (quick); truncate->split_off->advance chain (thorough)",
                    unwind="12 (8 for CowBytes-only harnesses); unwinding assertions on"),
        outside=["chains with more than 3 chunks or chunks longer than 3 bytes", "sequences longer than 3 operations (covered only by the one-step argument: every op is checked from every bounded valid state)",
                 "the real bytes::Bytes reference counting (claims about the Static variant are relative to the bytes model)"],
        assumptions=["bounds above", "pre-state chains are built with the real LongChain::push from non-empty chunks (valid by construction)",
                     "bytes shim models Bytes::{split_to,split_off,truncate,advance,clone,eq,cmp,hash} per the bytes documentation"],
        trusted=[SHIM_TRUST["bytes"], "flat byte-array reference model in harness/ext/src/c20.rs"],
        explanation="Each harness builds an arbitrary valid chain of a fixed shape with symbolic contents and variants, applies one real operation with a symbolic argument, and asserts agreement with a flat byte-array model (length, contents, no empty chunk, Buf::chunk contract).",
    )


PROPS["C20"] = _c20()

# ---------------------------------------------------------------------------------------------
# MANIFEST texts
# ---------------------------------------------------------------------------------------------
WIP = "check not built yet in this session (work in progress; see DESIGN.md §4 for the plan)"
NOT_APPLICABLE = {
    "C01": "end-to-end behaviour over real TCP/UDP/Unix sockets, the tokio multi-thread runtime, hyper and the rusty-penguin binary crate (rustls/aws-lc FFI in its closure): none of it can be compiled by Kani or encoded by hand within reach; its codec-level ingredients are decided under C02, C09, C11, C13, C18",
    "C17": "certificate-path validation, name matching and client-certificate verification happen inside rustls/webpki/aws-lc-rs (C and assembly behind FFI); the repository's part is a four-arm match that only has meaning through those libraries — nothing a solver can encode",
}
for _p in ["C02", "C03", "C04", "C05", "C06", "C07", "C08", "C09", "C10", "C11", "C12", "C13", "C14", "C15", "C16", "C18", "C19"]:
    NOT_APPLICABLE.setdefault(_p, WIP)

MANIFEST_TEXT = {
    "C20": dict(
        design_ref="DESIGN.md §4-C20",
        level_text="Bounded model checking of the real cow-bytes crate: every LongChain/CowBytes operation is executed symbolically from every valid chain of the enumerated shapes (<=3 chunks of 1..3 bytes, symbolic contents and variants) with a symbolic argument ranging to two past the end, and compared with a flat byte-array model; CBMC decides all values at once. This is the right level because the defects live at argument boundaries no unit test samples (truncate past the end, empty segments), and a single step from an arbitrary valid state covers operation sequences of any length.",
        level_note="Trusted: Kani/CBMC, the `bytes` model (Static variant), the harness-side reference model. Bounds: <=3 chunks, <=3 bytes per chunk, argument <= total+2; longer chains are outside the claim. Out-of-range arguments may panic (allowed outcome) — panics are classified by the driver, silent corruption is a violation; arithmetic-overflow checks count as violations because they wrap in production builds.",
    ),
}
