"""Per-property harness tables (what is run, in which profile, with which allowed panics)."""
import re
from vdriver import H

PROPS = {}

# Loops over a `Vec<CowBytes>` (vectored Push payload).  The discriminant of `Payload` /
# `PushPayload` is not folded by the symbolic execution, so these loops are explored under an
# infeasible guard wherever a frame is encoded, measured or compared; bound them.
def vec_loops(n):
    return [(r"Iter<'_, cow_bytes::CowBytes<'_>>", n), (r"\[cow_bytes::CowBytes<'_>\] as std::slice::Concat", n),
            (r"From<&penguin_mux::frame::Frame<'_>> for std::vec::Vec<u8>>::from", n),
            (r"Vec<cow_bytes::CowBytes<'_>>", n), (r"\[cow_bytes::CowBytes<'_>\]", n)]


SHIM_TRUST = {
    "bytes": "shim `bytes` (Bytes = leaked &'static [u8]; split/advance/truncate with the documented panics)",
    "tokio": "shim `tokio` (sequential mpsc/oneshot rings with real waker registration; io traits and *Ext helpers; virtual-clock time)",
    "hashbrown": "shim `hashbrown` (inline association list, capacity bound asserted)",
    "parking_lot_core": "shim `parking_lot_core` (park() panics = contended lock in sequential execution)",
    "parking_lot": "shim `parking_lot` (Mutex/RwLock as cells; taking a lock that is already held panics = self-deadlock detector)",
    "tracing": "shim `tracing` (events expand to nothing / a scheduling hook)",
}

# Panics of the code under test that are an allowed outcome for an out-of-range argument.
# Matched against "<description> @ <function>".
PANIC_OOR = [
    r"out of bounds", r"out of range", r"advance past end of buffer", r"cannot advance past",
    r"mid > len", r"insertion index", r"removal index", r"range end index", r"range start index",
    r"slice index starts at", r"assertion failed: (at|mid|index|len|cnt) <= ",
    r"split_to out of bounds", r"split_off out of bounds",
]

# ---------------------------------------------------------------------------------------------
# C20
# ---------------------------------------------------------------------------------------------
def _c20():
    hs = []
    quick_shapes = {"s0", "s2", "s12"}

    def add(name, oor=False, thorough_only=False):
        shape = name.rsplit("_", 1)[-1]
        tier = "quick" if (shape in quick_shapes or not shape.startswith("s") or name in ("c20_split_off_in_s31", "c20_advance_in_s111", "c20_truncate_in_s111", "c20_advance_in_s213")) and not thorough_only else "thorough"
        # in-range: decided under `dev` (debug invariants on: stricter) first, `rel` second;
        # out-of-range: decided under `rel` (what a production build does); in `dev` the
        # crate's own debug invariant panics first, which is an allowed outcome.
        if oor:
            hs.append(H(name, tier=tier, profiles=("rel", "dev"), allow_panics=True,
                        note="argument past the end: panic allowed, silent corruption is not"))
        else:
            hs.append(H(name, tier=tier, profiles=("rel", "dev"), note="argument in range: nothing may fail"))

    for op, shapes_in, shapes_oor in [
        ("truncate", ["s0", "s2", "s12", "s213", "s31", "s111", "s333"], ["s0", "s2", "s12", "s213"]),
        ("advance", ["s0", "s2", "s12", "s213", "s111", "s333"], ["s0", "s12", "s213"]),
        ("split_off", ["s0", "s2", "s12", "s213", "s31", "s333"], ["s0", "s12", "s213"]),
        ("split_to", ["s0", "s2", "s12", "s213", "s333"], ["s0", "s12", "s213"]),
    ]:
        for s in shapes_in:
            add(f"c20_{op}_in_{s}")
        for s in shapes_oor:
            add(f"c20_{op}_oor_{s}", oor=True)
    for n in ["c20_push_seg2_s0", "c20_push_seg1_s12", "c20_push_seg3_s21", "c20_insert_in_seg2_s0", "c20_insert_in_seg1_s12",
              "c20_insert_in_seg2_s21", "c20_pop_s0", "c20_pop_s2", "c20_pop_s213", "c20_remove_in_s2", "c20_remove_in_s213",
              "c20_clear_s0", "c20_clear_s213"]:
        add(n)
    # one concrete split position strictly inside a chunk with chunks behind it (cheap whatever the implementation does)
    for n in ["c20_split_off_at1_s31", "c20_split_off_at2_s31", "c20_split_off_at1_s213", "c20_split_off_at4_s213", "c20_split_to_at1_s31", "c20_split_to_at2_s31", "c20_split_to_at1_s213"]:
        hs.append(H(n, tier="quick" if n in ("c20_split_off_at1_s31", "c20_split_to_at1_s31", "c20_split_off_at4_s213") else "thorough", profiles=("rel", "dev"), mem_gb=20, timeout=900,
                    note="concrete split position inside a chunk, bytes symbolic (20 GB: a realloc of the chunk vector is byte-level for the solver)"))
    # an empty segment is an out-of-range argument in the property's sense
    for n in ["c20_push_empty_s0", "c20_push_empty_s12", "c20_insert_empty_s12", "c20_insert_empty_s0"]:
        hs.append(H(n, tier="quick", profiles=("rel", "dev"), allow_panics=True,
                    note="empty segment: panic or no-op allowed, an exposed empty chunk is not"))
    for n in ["c20_insert_oor_seg1_s12", "c20_remove_oor_s0", "c20_remove_oor_s12"]:
        add(n, oor=True)
    # three operations in a row with three symbolic arguments: out of memory at 20 GB (every operation is
    # decided on its own from every bounded valid chain, which is what the one-step argument needs)
    for n in ["c20_three_steps_s12", "c20_three_steps_s213"]:
        hs.append(H(n, tier="off", profiles=("rel", "dev"), note="beyond reach"))
    for n in ["c20_cow_split_to_in", "c20_cow_split_off_in", "c20_cow_truncate_in", "c20_cow_advance_in"]:
        hs.append(H(n, tier="quick", profiles=("dev", "rel"), note="CowBytes op, argument in range, both variants"))
    for n in ["c20_cow_split_to_oor", "c20_cow_split_off_oor", "c20_cow_truncate_oor", "c20_cow_advance_oor"]:
        hs.append(H(n, tier="quick", profiles=("rel", "dev"), allow_panics=True, note="CowBytes op, argument past the end"))
    for n in ["c20_variants_l0_l0", "c20_variants_l2_l2", "c20_variants_l3_l2", "c20_variants_l1_l3", "c20_shared_storage_l3", "c20_shared_storage_l1"]:
        hs.append(H(n, tier="quick" if n.endswith(("l0_l0", "l3_l2", "storage_l3")) else "thorough", profiles=("dev", "rel"),
                    note="Temporary vs Static indistinguishable through accessors, eq, ord, hash"))
    return dict(
        kind="ext", module="c20", shims=["bytes", "tokio"],
        harnesses=hs,
        bounds=dict(chunks="<= 3 per chain (shapes enumerated concretely: [], [2], [1,2], [2,1,3]; thorough adds [3,1], [1,1,1], [3,3,3])",
                    chunk_len="1..3 bytes, contents fully symbolic, variant (Temporary/Static) symbolic per chunk",
                    argument="symbolic over [0,total] (in-range harnesses) and (total, total+2] (out-of-range harnesses); chunk index over [0,n] / (n, n+1]",
                    steps="one operation from every bounded valid chain",
                    unwind="12 (8 for CowBytes-only harnesses); unwinding assertions on"),
        outside=["chains with more than 3 chunks or chunks longer than 3 bytes", "sequences longer than 3 operations (covered only by the one-step argument: every op is checked from every bounded valid state)",
                 "the real bytes::Bytes reference counting (claims about the Static variant are relative to the bytes model)"],
        assumptions=["bounds above", "pre-state chains are built with the real LongChain::push from non-empty chunks (valid by construction)",
                     "bytes shim models Bytes::{split_to,split_off,truncate,advance,clone,eq,cmp,hash} per the bytes documentation"],
        trusted=[SHIM_TRUST["bytes"], "flat byte-array reference model in harness/ext/src/c20.rs"],
        explanation="Each harness builds an arbitrary valid chain of a fixed shape with symbolic contents and variants, applies one real operation with a symbolic argument, and asserts agreement with a flat byte-array model (length, contents, no empty chunk, Buf::chunk contract).",
    )


PROPS["C20"] = _c20()

# ---------------------------------------------------------------------------------------------
# C09
# ---------------------------------------------------------------------------------------------
def _c09():
    hs = []
    enc_quick = ["connect_h0", "connect_h3", "ack", "reset", "finish", "push_p0", "push_p4", "push_owned_p0", "pushv_1_2",
                 "pushv_0_2", "bind_h0", "bind_h2", "dgram_h0_p0", "dgram_h0_p1", "dgram_h2_p3", "dgram_h1_p4", "dgram_owned_h0_p0", "dgram_owned_h1_p2"]
    enc_thorough = ["connect_h1", "push_p1", "push_owned_p3", "pushv_none", "pushv_one", "pushv_2_0", "dgram_h2_p0", "dgram_h2_p5", "dgram_owned_h3_p4"]
    for n in enc_quick:
        hs.append(H(f"c09_enc_{n}", tier="quick", profiles=("dev", "rel"), unwindset=vec_loops(4 if n.startswith("pushv") else 2),
                    note="constructor -> bytes == PROTOCOL.md layout; decode(bytes) == frame (borrowed and owned)"))
    for n in enc_thorough:
        hs.append(H(f"c09_enc_{n}", tier="thorough", profiles=("dev", "rel"), unwindset=vec_loops(4 if n.startswith("pushv") else 2),
                    note="constructor -> bytes == PROTOCOL.md layout; decode(bytes) == frame (borrowed and owned)"))
    # decode of ARBITRARY strings is decided for the production build (`rel`): in a debug build
    # `check_remaining!` panics on short input by design (debug_assert, not(fuzzing)).
    for n in [0, 1, 4]:
        hs.append(H(f"c09_dec_short_n{n}", tier="quick", profiles=("rel",), note=f"all byte strings of length {n} (shorter than the header): rejected, no panic"))
    # quick tier: per opcode the lengths around its minimum (the boundaries named in the
    # property); every other length up to 16 is in the thorough tier.
    quick_len = {0: (10, 11, 12), 1: (8, 9, 10), 2: (5, 6), 3: (5, 6), 4: (5, 6, 8), 5: (7, 8, 9), 6: (7, 8, 9)}
    for n in [5, 6, 7, 8, 9, 10, 11, 12, 13, 14, 16]:
        for op in range(7):
            hs.append(H(f"c09_dec_op{op}_n{n}", tier="quick" if n in quick_len[op] else "thorough", profiles=("rel",), unwindset=vec_loops(2),
                        mem_gb=(20 if op >= 5 and n >= 10 else None), timeout=(3000 if op >= 5 and n >= 10 else None),
                        note=f"all byte strings of length {n} with first octet 0x7{op} / 0x0{op}: Ok iff valid per PROTOCOL.md, fields pinned by re-encoding, owned == borrowed, no panic"))
        # n = 9 and 12 are quick since seed C09d (an undefined opcode nibble decoded as a Datagram needs a Datagram-sized body to show)
        hs.append(H(f"c09_dec_badfirst_n{n}", tier="quick" if n in (5, 9, 12) else "thorough", profiles=("rel",), unwindset=vec_loops(2),
                    note=f"all byte strings of length {n} with any other first octet (242 values): rejected, no panic"))
    for n in ["p0_e2", "p2_e2", "p2_e0"]:
        hs.append(H(f"c09_append_{n}", tier="quick" if n != "p2_e0" else "thorough", profiles=("dev", "rel"), note="append_push_data == encoding of the concatenation"))
    return dict(
        kind="ext", module="c09", shims=["bytes", "tokio", "tracing", "tracing-attributes", "parking_lot_core"],
        harnesses=hs,
        bounds=dict(ids_ports_windows="full width, symbolic", host_len="0,1,2,3 (concrete per harness)", payload_len="0..5 (concrete per harness), vectored: 0..2 segments of 0..2 bytes",
                    decode="every byte string of the enumerated lengths, contents fully symbolic except the first octet, which is enumerated (all 256 values) as a constant per run; quick: lengths 0,1,4 and per opcode the three lengths around its minimum; thorough: every opcode x lengths 5..14,16", unwind="20/26"),
        outside=["frames longer than 16 bytes / hosts longer than 3 bytes (the decoder has no length-dependent branch beyond the enumerated boundaries: stated, not proved)",
                 "the 255/256-byte Datagram host boundary of the encoder (decided at the API level in C11)",
                 "which Error variant is returned for an invalid string (the property only requires rejection)",
                 "trailing bytes after Acknowledge/Reset/Finish (PROTOCOL.md is silent; accepted and ignored by the decoder, treated as valid)"],
        assumptions=["bytes shim models Bytes/Buf/BufMut big-endian accessors per the bytes documentation", "decode of arbitrary strings is decided for the production profile (debug_assert in check_remaining! is by design)"],
        trusted=[SHIM_TRUST["bytes"], "reference layout + validity predicate written from PROTOCOL.md in harness/ext/src/c09.rs"],
        explanation="Differential check of the real codec against an independent reference layout: constructors -> bytes, bytes -> frame for ALL byte strings of each enumerated length.",
    )


PROPS["C09"] = _c09()

# ---------------------------------------------------------------------------------------------
# C18
# ---------------------------------------------------------------------------------------------
def _c18():
    names = ['c18_udp_parse_dom_n0', 'c18_udp_parse_dom_n3', 'c18_udp_parse_dom_n4', 'c18_udp_parse_dom_n5', 'c18_udp_parse_dom_n7', 'c18_udp_parse_dom_n8', 'c18_udp_parse_dom_n10', 'c18_udp_parse_badatyp_n10', 'c18_udp_parse_badatyp0_n10', 'c18_udp_parse_v4_n9', 'c18_udp_parse_v4_n10', 'c18_udp_parse_v4_n12', 'c18_udp_parse_v6_n21', 'c18_udp_parse_v6_n22', 'c18_udp_parse_v6_n23', 'c18_udp_build_v4_p0', 'c18_udp_build_v4_p3', 'c18_udp_build_v6_p0', 'c18_udp_build_v6_p2', 'c18_v5req_v4_n0', 'c18_v5req_v4_n1', 'c18_v5req_v4_n3', 'c18_v5req_v4_n4', 'c18_v5req_v4_n7', 'c18_v5req_v4_n9', 'c18_v5req_v4_n10', 'c18_v5req_v4_n12', 'c18_v5req_v6_n21', 'c18_v5req_v6_n22', 'c18_v5req_dom0_n6', 'c18_v5req_dom0_n7', 'c18_v5req_dom2_n8', 'c18_v5req_dom2_n9', 'c18_v5req_dom2_n10', 'c18_v5req_dom1_n4', 'c18_v5req_dom1_n5', 'c18_v5req_badatyp_n10', 'c18_v5req_badatyp5_n10', 'c18_v5methods_n0', 'c18_v5methods_nm0_n1', 'c18_v5methods_nm2_n2', 'c18_v5methods_nm2_n3', 'c18_v5methods_nm2_n5', 'c18_v4req_ip_u0', 'c18_v4req_ip_u2', 'c18_v4req_ip_u2_unterminated', 'c18_v4req_ip_u0_unterminated', 'c18_v4req_ip_trunc_n5', 'c18_v4req_ip_trunc_n0', 'c18_v4req_4a_u1_d2', 'c18_v4req_4a_u0_d0', 'c18_v4req_4a_u0_d2_unterminated', 'c18_v4req_4a_u0_nodomain', 'c18_v4req_4a_u0_d1_unterminated', 'c18_v4req_ip_u1_unterminated', 'c18_v5reply_v4', 'c18_v5reply_v6', 'c18_small_replies']
    # the SOCKS5 request reader (nested async fns) and the longer SOCKS4 shapes need minutes:
    # thorough tier only
    slow = lambda n: n.startswith("c18_v5req_") or n in ("c18_v4req_4a_u1_d2", "c18_v4req_ip_u2_unterminated", "c18_v4req_4a_u0_d2_unterminated")
    thorough_only = {"c18_udp_parse_dom_n3", "c18_udp_parse_dom_n8", "c18_udp_parse_badatyp0_n10", "c18_udp_parse_v4_n12", "c18_udp_parse_v6_n23",
                     "c18_udp_build_v6_p2", "c18_v5req_v4_n1", "c18_v5req_v4_n3", "c18_v5req_v4_n7", "c18_v5req_v4_n12", "c18_v5req_dom2_n8",
                     "c18_v5req_badatyp5_n10", "c18_v5methods_nm2_n5", "c18_v4req_ip_trunc_n0"}
    # The coroutine state of the async readers is not folded by the symbolic execution: every
    # later await point is explored (under an infeasible guard) even when an early read fails.
    # The helper loops of the tokio shim run at most twice on an always-ready in-memory stream;
    # bound them so that the infeasible explorations stay cheap (unwinding assertions stay on).
    io_loops = [(r"tokio::io::(ReadInt|ReadExact|WriteAll|ReadUntil|Read|Write)\b", 3),
                # address rendering (std): the IPv6 branch is explored, under an infeasible guard, in every
                # instance (the address-type octet read inside a nested coroutine is not folded); its loops
                # run at most 8 (segments) / 4 (hex digits) / 3 (decimal digits) times
                (r"LowerHex for u16>::fmt", 6), (r"Ipv6Addr as std::fmt::Display>::fmt", 10), (r"fmt_subslice", 10),
                (r"fmt::num::imp::<impl std::fmt::Display for u8>", 5), (r"^std::fmt::write$", 10)]
    # beyond reach: the SOCKS5 request reader (three nested async fns + std address formatting) did not
    # finish symbolic execution within 3000 s / 20 GB per instance on this machine
    # likewise the three longest SOCKS4/4a shapes (read_until twice + address formatting): out of memory at 20 GB / not finished in 3000 s
    off = lambda n: n.startswith("c18_v5req_") or n in ("c18_v4req_4a_u1_d2", "c18_v4req_ip_u2_unterminated", "c18_v4req_4a_u0_d2_unterminated")
    hs = [H(n, tier="off" if off(n) else ("thorough" if (n in thorough_only or slow(n)) else "quick"), profiles=("dev", "rel"), timeout=(3000 if slow(n) else None), mem_gb=(20 if slow(n) else None), unwindset=io_loops if ("req" in n or "methods" in n) and "v4req" not in n else (),
            note="message octets symbolic except the constants named in the harness") for n in names]
    return dict(
        kind="ext", module="c18", shims=["bytes", "tokio", "tracing", "tracing-attributes", "parking_lot_core"],
        harnesses=hs,
        bounds=dict(message_len="concrete per harness: every truncation point around each field boundary (UDP header 0..12 / 21..23 octets; SOCKS5 request 0..12 / 21,22; SOCKS4 0..12)",
                    domain_len="0,1,2 (SOCKS5), 0,2 (SOCKS4a)", userid_len="0,1,2", payload="0..3 octets", ip_literals="address octets fixed (127.0.0.1, ::1, 10.0.0.200, 192.168.1.9) where the address is rendered as text; symbolic where it is copied (replies, UDP reply)",
                    everything_else="symbolic (commands, ports, reply codes, reserved octets, methods, payload)"),
        outside=["the Kani instances of penguin_socks::v5::read_request (c18_v5req_*, written) do not finish symbolic execution within 3000 s / 20 GB each: that reader is decided by the source-to-SMT part (gate/socks5.py, reported under coverage.v5_request_reader); NOT COVERED: the three longest SOCKS4/4a shapes (2-octet user id without terminator; 4a with a user id and a 2-octet domain; 4a with an unterminated 2-octet domain)",
                 "domain names / user ids longer than 2 octets", "IP-literal formatting for arbitrary addresses (std fmt code)", "readers that return Pending (the in-memory stream is always ready; the *Ext helpers are the tokio shim)"],
        assumptions=["tokio shim AsyncReadExt/AsyncBufReadExt/AsyncWriteExt helpers follow tokio's documented behaviour (read_exact/read_uN fail with UnexpectedEof, read_until returns what it has at EOF)"],
        trusted=[SHIM_TRUST["bytes"], SHIM_TRUST["tokio"], "reference grammar of RFC 1928 / SOCKS4a in harness/ext/src/c18.rs"],
        explanation="Differential check of the real SOCKS readers/writers against a reference grammar over all octet values of messages of each enumerated length, including every truncation point.",
    )


PROPS["C18"] = _c18()

# ---------------------------------------------------------------------------------------------
# C19 (decidable part: the back-off generator with the client's call-site parameters)
# ---------------------------------------------------------------------------------------------
def _c19():
    hs = [H("c19_schedule_k1", tier="quick"), H("c19_schedule_k3", tier="quick"), H("c19_schedule_k6", tier="quick"),
          H("c19_schedule_k12", tier="quick"), H("c19_long_outage_defaults_n70", tier="quick"), H("c19_long_outage_cap1s_limit40_n45", tier="quick"), H("c19_long_outage_nocap_n66", tier="quick"), H("c19_generic_k3", tier="quick"), H("c19_generic_k6", tier="thorough", timeout=3000, mem_gb=20)]
    for h in hs:
        h.profiles = ("dev", "rel")
        h.note = "all (max_retry_interval: u64 ms, max_retry_count: u32): delays == min(200 ms * 2^k, max); None exactly after max_retry_count; reset restores the start; no arithmetic panic"
    return dict(
        kind="ext", module="c19", shims=["bytes", "tokio", "tracing", "tracing-attributes", "parking_lot_core"], harnesses=hs,
        bounds=dict(max_retry_interval="all u64 milliseconds", max_retry_count="all u32", consecutive_failures="k <= 6 (quick), 12 (thorough), then reset, then one more",
                    call_site="initial delay and multiplier are extracted from the current penguin/src/client/mod.rs; generic harness: initial/max <= 65535 ms, mult 1..4, count <= 255"),
        outside=["everything in the rusty-penguin crate: the retry loop itself, retryable classification, reset-after-success wiring, the parked stream request, listeners staying open, "
                 "and the known behaviour that an orderly WebSocket close leaves the client on a dead multiplexor (needs real sockets, signals and the tokio runtime: not encodable)"],
        assumptions=["the call-site regex matches (otherwise the build fails and the check is INCONCLUSIVE)"],
        trusted=["call-site extraction regex in lib/vdriver.py"],
        explanation="The arithmetic core of the reconnect rule: penguin_mux::timing::Backoff driven with the client's call-site parameters for all configurations.",
    )


PROPS["C19"] = _c19()

# ---------------------------------------------------------------------------------------------
# C01 (partial: the client's UDP reply routing, code extracted from the rusty-penguin crate)
# ---------------------------------------------------------------------------------------------
def _c01():
    hs = [H("c01_udp_reply_routing", tier="quick", profiles=("dev", "rel"), note="two local UDP clients, any addresses / listeners / modes, any id draws"),
          H("c01_udp_reply_unknown_id", tier="quick", profiles=("dev", "rel"), note="one client registered, reply for any other non-zero id"),
          H("c01_udp_prune_consistent", tier="quick", profiles=("dev", "rel"), note="two clients of one listener, symbolic elapsed times up to twice the timeout, optional refresh of the first")]
    return dict(
        kind="ext", ext_dir="ext1", module="c01", shims=["bytes", "tokio", "tracing", "tracing-attributes", "parking_lot_core", "parking_lot", "hashbrown"],
        native_shims=[], harnesses=hs,
        bounds=dict(clients="2 local UDP clients (IPv4 socket addresses, all 2^48 values each), 2 listener sockets", id_draws="at most 3 RNG draws per harness (sequences needing more are outside the bound)",
                    payload="1-2 octets (symbolic)", time="elapsed times 0 .. 2 x UDP_PRUNE_TIMEOUT in milliseconds (symbolic)", maps="hashbrown model, capacity 3"),
        outside=["EVERYTHING ELSE of C01: TCP entry points (fixed remotes, SOCKS4/4a/5 CONNECT, HTTP CONNECT), half-close propagation, target refusal, the server side (forwarder, per-flow UDP sockets), the real sockets and runtime; "
                 "the stream/datagram/bridge/codec ingredients are decided under C02, C05, C09, C11, C13, C18", "IPv6 client addresses (the maps only compare addresses for equality)", "more than two clients / three id draws",
                 "std::collections::HashMap is replaced by the association-list model (lookups by equality only); the real HashMap's hashing is not executed"],
        assumptions=["two listener sockets are bound to different local addresses", "a listener is either a SOCKS5 relay or a plain UDP remote (its mode does not change)",
                     "the extraction patterns in lib/vdriver.py match (otherwise the build fails and the check is INCONCLUSIVE)"],
        trusted=[SHIM_TRUST["hashbrown"], SHIM_TRUST["parking_lot"], "environment stubs in harness/ext1/src/c01.rs (recording UDP socket / stdout, virtual clock, solver-chosen RNG draws)", "item extraction in lib/vdriver.py::extract_udp_maps"],
        explanation="The text of HandlerResources::add_udp_client / prune_udp_clients, ClientIdMaps and ClientIdMapEntry is extracted from the current penguin/src/client/mod.rs and executed symbolically against recording stubs: where does a reply for a client id go.",
    )


PROPS["C01"] = _c01()

# ---------------------------------------------------------------------------------------------
# in-crate (penguin-mux) properties
# ---------------------------------------------------------------------------------------------
MUX_TRUST = [SHIM_TRUST[k] for k in ("bytes", "tokio", "hashbrown", "parking_lot", "tracing")] + [
    "enum layout pins (repr(u8) under cfg(kani)) applied to the scratch copy", "single-threaded execution of the real code (no real concurrency)"]


def harness_names(fname, prefix):
    import re as _re
    from pathlib import Path as _P
    src = (_P(__file__).resolve().parent.parent / "harness" / "mux" / fname).read_text()
    return [n for n in _re.findall(r"h!\((\w+),", src) if n.startswith(prefix)]


def _c10():
    names = harness_names("task_h.rs", "c10_")
    # every cell of the reaction table is a quick instance (10-20 s each): seed C10c (a duplicate Finish on a
    # read-closed flow taking the table lock twice) was first missed because its cell was thorough-only
    thorough_only = {"c10_connect_requested"}
    heavy = lambda n: n.startswith("c10_connect_")   # process_frame(Connect): nested coroutine, ~17 GB
    hs = [H(n, tier="thorough" if (n in thorough_only or heavy(n)) else "quick", profiles=("dev", "rel"), unwindset=vec_loops(2),
            mem_gb=(26 if heavy(n) else None), timeout=(2400 if heavy(n) else None),
            note="one frame (all field values) x slot state of the addressed flow x arbitrary bystander: reply per PROTOCOL.md, no panic, no error, bystander untouched") for n in names]
    return dict(
        kind="mux", module="task_h.rs", harnesses=hs,
        bounds=dict(frames="one frame per harness: each opcode, all field values symbolic (ids: the addressed flow, 0; payload 2 bytes, host 1 byte)",
                    slot_states="absent, Requested, BindRequested, Established {queue with room, queue full, read side closed} x finish_sent symbolic x credit symbolic",
                    bystander="one other Established flow with symbolic credit/closed flags and one queued frame", table="<= 3 flows (model map capacity), rwnd 2"),
        outside=["sequences of more than one frame (each frame is checked from every bounded state instead)", "an invalid (undecodable) message: decided under C09 (rejected) and C08 (teardown)",
                 "Connect/Bind delivery when the application's accept/bind queue is full (blocks the connection task by design)"],
        assumptions=["pre-states are built with the real new_stream_shared / dispatch code and symbolic flag values"],
        trusted=MUX_TRUST, explanation="PROTOCOL.md's reaction table as one-step harnesses over the real Task::process_frame.",
    )


PROPS["C10"] = _c10()

def all_mux_harnesses():
    out = {}
    for f in ("task_h.rs", "stream_h.rs", "bridge_h.rs", "timing_h.rs", "config_h.rs"):
        try:
            for n in harness_names(f, "c"):
                out[n] = f
        except FileNotFoundError:
            pass
    return out


MUXH = all_mux_harnesses()


def mux_module_of(h):
    return MUXH.get(h, "task_h.rs")


# written, but beyond reach on this machine (reason): never selected by a tier, see DESIGN §8
OFF = {
    "c08_wd_request_in_tail_k0": "a stream request made at wind_down's first log site (before the outbound queue is closed): symbolic execution not finished after 900 s (new_stream_channel nested in wind_down); the later sites k1, k2 run",
    "c08_start_invalid_message": "the whole Task::start future fed an invalid message with a peer that then stays silent: not finished after 900 s - seed C10d (wind_down asked to drain after an InvalidFrame error) is NOT detected",
    "c02_w_plain_big": "one write of 1 MiB + 1 octet (constant contents): the solver does not finish within 600 s (1 MiB array copies); writes larger than a few octets are therefore outside the claim - seed C02c (writes > 1 MiB split into several frames, replayed from the start after a Pending) is NOT detected",
    "c20_three_steps_s12": "truncate -> split_off -> advance with three symbolic arguments: out of memory at 20 GB",
    "c20_three_steps_s213": "truncate -> split_off -> advance with three symbolic arguments: out of memory at 20 GB",
    "c11_send_h3_p1": "engine imprecision: in this instance the bytes after the first of a >= 3-octet host copied into the frame are unconstrained in CBMC's model (standalone reproductions of the same copy are precise); the counterexample does not reproduce natively, so the instance cannot decide anything",
    "c11_send_h255_p1": "same engine imprecision as c11_send_h3_p1 (the 255/256 boundary of the refusal is covered by c11_send_h256_p1 and by the u8 conversion in the encoder instances of C09)",
    "c08_wd_inflight_established": "wind_down with a frame still in the source: symbolic execution not finished after 1200 s (process_message as a nested coroutine inside wind_down)",
    "c07_request_acked": "new_stream_channel through to the Acknowledge: out of memory at 26 GB (the sub-steps are covered by c07_request, c10_ack_requested, c03/c07 handshake instances)",
    "c07_request_rejected_r2": "two rejected attempts of new_stream_channel: out of memory at 26 GB (one rejected attempt, c07_request_rejected_r1, is covered)",
    "c08_keepalive_silent_transport": "the whole connection task (Task::start) polled through a keepalive timeout: symbolic execution not finished after 4500 s",
    "c08_wind_down_peer_ended_inflight": "wind_down with a frame still in the source: symbolic execution not finished after 1200 s (process_message as a nested coroutine)",
    "c08_wind_down_local_drop_inflight": "wind_down with a frame still in the source: symbolic execution not finished after 1200 s (process_message as a nested coroutine)",
}
HEAVY = {  # harness -> (mem_gb, timeout_s): thorough tier only
    "c11_send_h256_p1": (20, 1800),
    "c12_race_ack_w0": (12, 1200), "c06_peer_reset_app_view": (12, 1200),
}


# quick-tier instances that need more than the default 8 GB (budgeted by the driver: HeavyBudget)
QUICK_HEAVY = {}


def mux_prop(pid, names, thorough_only=(), notes=None, extra_unwindset=(), **kw):
    hs = []
    for n in names:
        heavy = HEAVY.get(n)
        tier = "off" if n in OFF else ("thorough" if (n in thorough_only or heavy or n.startswith("c10_connect_")) else "quick")
        mem, tmo = heavy if heavy else ((26, 2400) if n.startswith("c10_connect_") else (None, None))
        for rx, mt in QUICK_HEAVY.items():
            if re.match(rx, n):
                mem, tmo = mt
        hs.append(H(n, tier=tier, profiles=("dev", "rel"), unwindset=list(extra_unwindset) + vec_loops(2), mem_gb=mem, timeout=tmo, note=(notes or {}).get(n, kw.get("note", ""))))
    # native replay of in-crate harnesses: real bytes / hashbrown / parking_lot / futures /
    # rand; the tokio model (virtual clock, inspectable channels) and the tracing model
    # (scheduling points) stay, because the harness files use their model-only hooks
    d = dict(kind="mux", module_of=mux_module_of, harnesses=hs, trusted=MUX_TRUST, native_shims=["tokio", "tracing", "tracing-attributes", "parking_lot"])
    d.update({k: v for k, v in kw.items() if k != "note"})
    return d


def pick(*prefixes, extra=()):
    return [n for n in MUXH if n.startswith(tuple(prefixes))] + [e for e in extra if e in MUXH]


COMMON_OUTSIDE = ["real thread interleavings inside tokio's channels and the tokio scheduler (trusted contract: FIFO, exact capacity, wake on send/receive)",
                  "queues longer than 2 frames, more than 3 flows per endpoint (model capacities)"]

PROPS["C02"] = mux_prop(
    "C02", pick("c02_", extra=["c10_push_est_room", "c10_push_absent", "c07_accept"]), thorough_only={"c02_w_vec_0_0", "c02_w_vec_none", "c02_r_rem2_q2_cap3", "c02_w_plain_l3"},
    note="local contract of the decomposition W (write -> exactly one Push with exactly those bytes), S (sender step moves exactly the head of the FIFO), D (Push appended to its own flow's FIFO only), R (reads return the next bytes, frames popped only when used up)",
    bounds=dict(write_len="0,1,3 bytes; vectored: 0..2 slices of 0..2 bytes", read="remainder 0..2 bytes, 0..2 queued frames (1 and 2 bytes), read buffer 1 or 3 bytes", credit="symbolic u32", flows="addressed flow + arbitrary bystander"),
    outside=COMMON_OUTSIDE + ["the end-to-end statement is obtained by composing W, S, C09 (codec), D, R by hand (DESIGN.md 4-C02); the composition argument is not machine-checked"],
    assumptions=["FIFO channels (tokio contract)", "C09: the frame codec is the identity on Push payloads"],
    explanation="Five local contracts over the real MuxStream / Task code whose conjunction gives: bytes read = prefix of bytes written, per stream, in order, exactly once, no cross-talk.")

PROPS["C03"] = mux_prop(
    "C03", pick("c03_", "c02_w_plain", "c02_w_vec_1_2", extra=["c12_atomic_writer_in_ack_k0", "c12_atomic_writer_in_ack_k1", "c12_atomic_writer_in_ack_k2", "c10_push_est_full", "c10_ack_est", "c04_threshold_con_recv", "c04_threshold_ack_recv", "c07_accept",
                                                                "c12_race_ack_w0", "c12_race_ack_w1", "c12_race_ack_w2", "c12_race_ack_w3", "c12_race_ack_w6"]), thorough_only={"c02_w_plain_l3"}, atomics=True,
    note="one transition of the credit accounting invariant credit + in-flight + queued + consumed-unacked + acks-in-flight = rwnd",
    bounds=dict(windows="symbolic u32", thresholds="symbolic u32 >= 1", counter="symbolic < threshold", queue="capacity 2"),
    outside=COMMON_OUTSIDE + ["the invariant over whole two-party runs is composed by hand from the per-transition checks (DESIGN.md 4-C03)"],
    assumptions=["credit + n <= u32::MAX when an Acknowledge(n) arrives (implied by the invariant between conforming endpoints)"],
    explanation="Every transition of the real code that touches the flow-control accounting is checked from an arbitrary state: init (credit = peer window), send (one unit per Push, none without credit), receive/overrun (Reset of that flow only), consume (Acknowledge carries exactly the frames consumed since the last one, once), credit return.")

PROPS["C04"] = mux_prop(
    "C04", pick("c04_", extra=["c07_accept_queue_full", "c03_ack_accounting_empty_push", "c03_ack_accounting", "c10_push_est_full", "c10_push_est_room", "c10_datagram_est", "c11_recv_full_p2", "c02_w_plain_l1", "c02_r_rem0_q0_cap1", "c12_race_ack_w2", "c12_race_ack_w3"]),
    note="liveness-critical arithmetic and non-blocking dispatch",
    bounds=dict(options="all (rwnd >= 1, default_rwnd_threshold >= 1) accepted by Options, all peer windows >= 1 (symbolic u32)", dispatch="inbound dispatch from full and non-full queues"),
    outside=["PARTIAL: 'every write eventually completes' is a liveness property over unbounded fair runs and is not checked; decided are (a) 1 <= ack threshold <= window advertised for every accepted Options pair (the deadlock condition), (b) the connection task never blocks on a slow reader (Push to a full queue, datagram to a full buffer return immediately), (c) an Acknowledge is emitted as soon as the threshold is reached, (d) a writer blocked on credit is woken by it (C12)",
             "fairness of the tokio scheduler; Connect/Bind delivery to a full accept queue blocks the connection task by design (premise of the property)"],
    assumptions=[], explanation="The conditions under which the pinned tree deadlocked (threshold above the advertised window) as a solver query over all option values, plus the non-blocking steps progress relies on.")

PROPS["C05"] = mux_prop(
    "C05", pick("c05_", extra=["c02_w_plain_l0", "c02_w_plain_l1", "c02_w_vec_0_0", "c02_w_vec_one", "c02_w_vec_1_2", "c02_r_rem0_q0_cap1", "c02_r_rem0_q1_cap1", "c02_r_uninit_rem0_q1_cap3", "c02_r_uninit_rem2_q0_cap1", "c10_finish_est", "c10_finish_est_readclosed", "c06_peer_reset_app_view",
                               "c10_reset_est", "c10_reset_est_full", "c06_local_drop"]),
    thorough_only={"c02_w_vec_0_0"},
    note="end-of-stream only when the sender is gone and the queue is drained; empty writes; shutdown once; BrokenPipe afterwards",
    bounds=dict(writes="0,1 bytes plain and vectored-empty", queue="0..2 frames"), outside=COMMON_OUTSIDE,
    assumptions=[], explanation="EOF is reported iff the inbound sender is gone and everything queued was returned; a zero-length write is followed through to the peer's reader; Finish closes only the inbound direction; shutdown emits exactly one Finish and later writes fail with BrokenPipe.")

PROPS["C06"] = mux_prop(
    "C06", pick("c06_", extra=["c10_finish_est", "c10_finish_est_readclosed", "c10_reset_est", "c10_reset_est_full", "c10_reset_requested", "c10_reset_bindreq", "c07_request_rejected_r1"]),
    note="close paths from an arbitrary table; re-open of a released id",
    bounds=dict(table="<= 3 slots, bystander in an arbitrary state", closed_flow="symbolic credit / closed flag / one queued frame / counter"), outside=COMMON_OUTSIDE + ["open/close cycles longer than close + re-open (each step is checked from an arbitrary bounded table instead)"],
    assumptions=[], explanation="Drop without shutdown -> Reset once and slot removed; drop after shutdown -> no Reset; peer Reset -> no reply, queued data then EOF, BrokenPipe; table shrinks by one; a re-opened id starts with fresh credit, flags, queue and counters; bystander untouched.")

PROPS["C07"] = mux_prop(
    "C07", pick("c07_", extra=["c10_conrecv_absent", "c10_conrecv_zero", "c10_conrecv_est", "c10_conrecv_requested", "c10_ack_requested", "c10_ack_absent", "c10_ack_bindreq", "c04_threshold_ack_recv"]),
    note="id allocation over all RNG draw sequences; request / retry / give-up; acceptor sees host, port, credit",
    bounds=dict(rng="all sequences of <= 4 draws (id allocation); scripted draws 0, in-use, fresh, fresh for the request flows", retries="max_flow_id_retries 1 and 2", host="2 bytes symbolic", table="one live flow"),
    outside=COMMON_OUTSIDE + ["RNG sequences needing more than 4 draws (cut by assumption)", "max_flow_id_retries > 2"],
    assumptions=["the peer's answers are applied through ack_recv_new_stream / close_flow, which process_frame dispatches to (dispatch decided under C10)"],
    explanation="Never id 0 or an id in use; one Connect per attempt with the requested host/port and own rwnd; Acknowledge establishes exactly once with the peer's window as credit; rejected requesters retry with fresh ids and fail with FlowIdRejected after max_flow_id_retries; colliding Connect is Reset without touching the local request.")

PROPS["C11"] = mux_prop(
    "C11", pick("c11_", extra=["c10_datagram_absent", "c10_datagram_est"]), thorough_only={"c11_agreement_p4", "c11_send_h1_p1"},
    note="send (<=255 / 256-byte host), receive from every buffer occupancy, sender/receiver agreement on short payloads",
    bounds=dict(host_len="0,1,2 (quick), 255, 256 (thorough)", payload_len="0..4", buffer="datagram_buffer_size 2: occupancy 0, 1, full", ids="symbolic incl. 0"),
    outside=COMMON_OUTSIDE + ["payloads longer than 4 bytes", "interleaving with stream traffic beyond the bystander check"],
    assumptions=[], explanation="send_datagram refuses hosts > 255 with no other effect, else emits exactly one frame carrying the four fields; the receive path appends at the tail or drops when full, never blocks, never fails; what send_datagram emits decodes at the peer for payloads of 0..4 bytes.")

PROPS["C12"] = mux_prop(
    "C12", pick("c12_", extra=["c03_credit_return"]), atomics=True,
    note="the other party's whole operation runs before / at the k-th log site or k-th atomic operation of / after this party's operation",
    bounds=dict(parties="one writer poll vs one acknowledge(n>=1) or one close; either party may be the one that is interrupted",
                scheduling_points="before the operation, at each place where poll_obtain_write_permission logs (up to 5), immediately before each of its first 5 atomic operations, immediately before each of the first 3 atomic operations of acknowledge / disallow_write, after the operation",
                memory_model="sequential consistency", initial_credit="0..2"),
    outside=["PARTIAL: one party's operation is always executed as a whole inside the other's (interleavings in which BOTH operations are split are not explored); C11 weak-memory behaviours are NOT explored (Kani has no threads: the atomics are the sequential ones, orderings are ignored)",
             "compare_exchange_weak is modelled without spurious failures", "two concurrent writers",
             "a change that removes the log lines removes those scheduling points: the run then fails its witness (no harness satisfied 'ran at a scheduling point inside')"],
    assumptions=["futures_util::task::AtomicWaker is executed for real (sequentially)", "crate::loom::{AtomicU32, AtomicBool} are replaced in the scratch copy by wrappers that pass a scheduling point before every operation (harness/mux/common.rs; the re-export line of loom.rs is rewritten by lib/vdriver.py)"],
    require_covers_any=[r"the other party ran at a scheduling point inside", r"the writer ran between two atomic operations of the task's operation", r"the other party ran between two atomic operations of the writer's poll"],
    explanation="Sequentialised two-party race: if the poll returns Pending although credit arrived or the stream was closed at any chosen point, a wake-up must have been delivered; final credit = grants - permissions.")

PROPS["C16"] = mux_prop(
    "C16", pick("c16_"), thorough_only={"c16_history_i1_t3", "c16_history_i1_tnone", "c16_answered_within_t_i2_t3_p3"},
    # per poll the ping loop starts its body at most twice (tick ready -> ping -> tick pending)
    extra_unwindset=[(r"schedule_ping_task", 3)],

    note="real schedule_ping_task under the virtual clock; pong history chosen by the solver",
    bounds=dict(pairs="(I,T) in seconds: (1,1), (2,3), (1,3), (2,1 -> clamped), (1,none), (none,none), (none,5); clamp rule: all values up to 1e9 s",
                ticks="3..5 ticks; after each tick the peer answers or not, at a symbolic instant in (tick, tick+I]", clock="virtual, milliseconds; ticks exactly on time (no scheduler jitter)"),
    outside=["PARTIAL: what happens after the timeout on a silent transport (pending calls) belongs to C08", "wall-clock jitter of a loaded runtime (ticks are exactly on time in the model)", "intervals with sub-millisecond parts"],
    assumptions=["tokio::time::interval semantics as documented (first tick immediate, then every period; MissedTickBehavior::Skip)"],
    explanation="The real ping loop is driven tick by tick under a virtual clock: exactly one Ping per interval; KeepaliveTimeout exactly when more than T elapsed since the last pong (hence not before T and not after T+I); nothing when disabled; clamp T >= I for all option values. The clause 'each ping answered within T => never times out' is posed as stated and fails by design of the implementation (known finding).")

PROPS["C13"] = mux_prop(
    "C13", pick("c13_"),
    # the coalescing loop runs at most once per script entry (3), the relay loop once per byte
    # written or per frame (<= 3 bytes, 2 frames, EOF)
    extra_unwindset=[(r"poll_write_us", 5), (r"poll_read_us", 6), (r"poll_for_push", 3)],
    note="one poll of the bridge with a solver-scripted local side and a real MuxStream in an arbitrary bounded state",
    bounds=dict(local_side="fill_buf script of 3 entries over {Pending, 1 byte, 2 bytes, EOF, Err}; write: Pending / Err / accepts <= 1 or 2 bytes; flush and shutdown: Ok / Pending / Err",
                mux_side="credit 0,1,2; closed flag symbolic; 0..2 queued frames; peer finished or not", polls="one poll per direction (poll_write_us / poll_read_us from Transferring(0)) and one poll of the whole future"),
    outside=["more than one poll (later polls start from the states reached here only in part: ShuttingDown and Transferring(n>0) are not re-entered)", "local chunks larger than 2 bytes, more than 3 fill_buf results per poll",
             "a local side that returns Ok(0) from poll_write for a non-empty buffer (AsyncWrite contract violation)"] + COMMON_OUTSIDE,
    assumptions=["the local side honours the AsyncBufRead/AsyncWrite contracts (unconsumed data is returned again; a Pending result keeps the waker)"],
    explanation="Exactly the bytes consumed from the local side go into one Push (in order, one credit); bytes written to the local side are a prefix of the peer's data; EOF on either side becomes Finish / shutdown; any error of either side completes the same poll with an error; a Pending result always leaves the bridge's waker with some callee (no orphan Pending).")

PROPS["C08"] = mux_prop(
    "C08", pick("c08_", extra=["c15_teardown", "c02_s_sink_pending", "c02_s_sink_error", "c06_local_drop"]),
    thorough_only={"c08_wind_down_peer_ended", "c08_wind_down_local_drop", "c08_wind_down_peer_ended_inflight", "c08_wind_down_local_drop_inflight", "c08_keepalive_silent_transport"},
    extra_unwindset=[(r"schedule_ping_task", 3), (r"wind_down", 4), (r"as bytes::Buf>::copy_to_slice", 3)],
    note="wind_down from a table with one flow of every kind, queued frames and a frame still in flight; the transport's behaviour chosen by the solver",
    bounds=dict(flows="one Established (one frame delivered, symbolic credit), one Requested, one BindRequested", outbound="2 queued frames", in_flight="0 or 1 Push still in the source",
                transport="sink ready or failing, close Ok or failing, source ending with None or with an error; separately: keepalive (1 s, 1 s) on a source that stays silent for ever"),
    outside=["PARTIAL: the cut is placed at the granularity of the connection task's steps (after the select), not at every instruction inside tokio", "a blocked writer / reader registered on another thread at the moment of the cut (their wake-up is C12 / the channel contract)",
             "a peer that never answers our Close after a LOCAL drop on an otherwise healthy transport (the drain loop then waits for it: by design)"],
    assumptions=["the Task object is dropped when its future completes (as `start(self)` does)"],
    explanation="After the connection ends every flow is gone, reads return delivered data (including frames still in flight) then EOF, writes fail with BrokenPipe, pending open/bind requests resolve (None / false), later API calls report Closed; on a local drop the queued frames reach the sink in order before close; after a keepalive timeout on a silent transport the task completes instead of waiting for the peer.")

PROPS["C15"] = mux_prop(
    "C15", pick("c15_", extra=["c10_bind_disabled_absent", "c10_bind_enabled_absent", "c10_finish_bindreq", "c10_reset_bindreq", "c10_ack_bindreq", "c07_id_alloc"]),
    note="requester with another bind pending and answers in the other order; responder accept / reject / drop; teardown",
    bounds=dict(concurrent_binds="2", answers="Finish / Reset in either order, teardown", host="1 byte symbolic", types="both"), outside=COMMON_OUTSIDE + ["application bind queue full (blocks the connection task by design)"],
    assumptions=[], explanation="One Bind frame per request under a fresh non-zero id with the requested type/host/port; each request resolves exactly once with its own answer; the responder shows exactly the request and answers exactly once (Finish for accept, Reset for reject/drop); ids are released.")

# ---------------------------------------------------------------------------------------------
# MANIFEST texts
# ---------------------------------------------------------------------------------------------
WIP = "check not built yet in this session (work in progress; see DESIGN.md §4 for the plan)"
NOT_APPLICABLE = {
    "C17": "certificate-path validation, name matching and client-certificate verification happen inside rustls/webpki/aws-lc-rs (C and assembly behind FFI); the repository's part is a four-arm match that only has meaning through those libraries — nothing a solver can encode",
}
for _p in []:
    NOT_APPLICABLE.setdefault(_p, WIP)

# properties decided by another engine than the Kani driver: id -> (engine, quick, thorough)
EXTRA_CHECKS = {"C14": ("gate-smt", "./check C14 --tier quick", "./check C14 --tier thorough")}

MANIFEST_TEXT = {
    "C01": dict(
        design_ref="DESIGN.md §4-C01",
        level_text="PARTIAL claim: one clause of C01 only - 'every reply is delivered to exactly the local client that originated the exchange, from the address that client sent to (and in SOCKS5 mode when it is a SOCKS5 association), also when several local clients are active at once'. The rusty-penguin crate cannot be compiled by Kani, so the TEXT of the items that decide where a UDP reply goes (HandlerResources::add_udp_client, prune_udp_clients, ClientIdMaps incl. send_datagram_reply, ClientIdMapEntry) is extracted from the current penguin/src/client/mod.rs on every run and executed symbolically (Kani/CBMC) against recording stubs for the UDP socket, stdout, the clock and the RNG: for ALL pairs of client addresses, listeners, modes and ALL client-id draws, ids identify (client address, listener) pairs, a reply for a client's id leaves through that client's listener socket to that client's address in that listener's mode with the unmodified payload and never goes to stdout or to another client; a reply for an id nobody holds produces nothing; an entry lives exactly UDP_PRUNE_TIMEOUT after its last use and pruning keeps the two maps consistent. This found a genuine defect on the pinned tree: the id is drawn with next_available_key, which can return 0 - the id reserved for stdio - so with probability 2^-32 per new client its replies were written to the client's stdout instead of being sent back (fixed). Everything else of C01 (TCP entry points, half-close, refusal, the server side, real sockets) is NOT covered here; its stream, datagram, bridge and codec ingredients are decided under C02, C05, C09, C11, C13, C18.",
        level_note="Trusted: Kani/CBMC; the extraction in lib/vdriver.py (text of the repository's items, visibility keywords added, struct HandlerResources reduced to the field used); the hashbrown model standing in for std::collections::HashMap; the parking_lot model; the recording stubs. Bounds: 2 clients, 2 listeners, 3 id draws, payload <= 2 octets, IPv4 addresses.",
        technique="bounded symbolic execution (Kani 0.68 / CBMC 6.11 + CaDiCaL, unwinding assertions on) of source text extracted from the current rusty-penguin crate, compiled against recording environment stubs; counterexamples replayed natively against the same text with the real hashbrown / parking_lot / rand",
    ),
    "C08": dict(
        design_ref="DESIGN.md §4-C08",
        level_text="PARTIAL. Bounded model checking of the real wind_down with a scripted transport, one instance per ingredient (wind_down treats table entries and the outbound queue independently): a table entry of each kind (established with delivered data, pending open, pending bind), two frames queued before the end, the sink's readiness and the close result chosen by the solver, the source ending with end-of-stream, with an error, or staying silent: the future completes; afterwards no flow remains, reads return what was delivered then EOF, writes fail with BrokenPipe, the pending open resolves with None and the pending bind with false, the WebSocket is closed; after a local drop the queued frames were handed to the sink in order before close, after any other end nothing is transmitted; the sender future (the branch Task::start selects on) polled once and then cancelled leaves every queued frame in the sink or in the queue; later API calls report Closed. When the connection ended for a non-local reason and the source stays silent, wind_down must still complete - the pinned tree waited for the dead peer for ever (repaired). The combined scenario (three flows, two queued frames) runs in the thorough tier. NOT run (beyond reach): a frame still in flight inside the source, the whole Task::start future through a keepalive timeout",
        level_note="Cuts are placed between steps of the connection task, not inside tokio; pending operations are represented by their channel ends. Trusted: the mux models (see C02).",
    ),
    "C14": dict(
        engine="gate-smt",
        technique="source-to-SMT translation of the gate (regex-level extraction of the guards from the current service.rs), equivalence with the specification decided by z3 and cvc5 (must agree), sat models replayed against the real hyper Service",
        design_ref="DESIGN.md §4-C14",
        level_text="The upgrade gate lives in the rusty-penguin crate, which Kani cannot compile (hyper, rustls, aws-lc). Its decision logic is a straight-line sequence of guards over header lookups, so it is extracted from the CURRENT service.rs (State::call routing, ws_handler guards, the header_matches! macro, the header constants) into boolean atoms and decided by z3 and cvc5: the implementation upgrades iff GET, PSK absent-or-equal, key present and the four headers equal ignoring case; without an upgradable connection it never upgrades; every non-upgrade exit is the same call as the unknown-path route with the request unmodified; /ws is the only path that reaches the gate and obfs sends /health and /version to the unknown-path route; the 101 response carries the three fixed headers and the accept value computed from the request's key. Any construct outside the extraction grammar yields INCONCLUSIVE, never a verdict; a sat model is turned into a concrete request and replayed against the real State service before it is reported.",
        level_note="Conditional claim: trusted are the extraction grammar (checked against every construct it meets), HeaderMap::get semantics (first value), and the repository's own test vector test for the SHA-1/base64 accept value (hashing is not a solver target). Header variants (case change, near miss, duplicate, empty) are represented by the atoms present / equal-ignoring-case / equal-exactly.",
    ),
    "C13": dict(
        design_ref="DESIGN.md §4-C13",
        level_text="Bounded model checking of the real CopyBidirectional over a real MuxStream and a local side whose every call result (fill_buf: Pending / 1-2 bytes / EOF / error; write: Pending / partial / error; flush, shutdown: Ok / Pending / error) is chosen by the solver: in one poll of each direction, the bytes put into the Push frame are exactly the bytes consumed from the local side, in order and for one unit of credit; the bytes written locally are a prefix of the peer's data; end-of-stream becomes Finish / shutdown; an error of either side completes that poll with an error (the pinned tree swallowed a read error that followed data and returned Pending with no waker); and a Pending result always leaves the waker with a callee.",
        level_note="Bounds: one poll per direction from the initial state plus one poll of the joint future; scripts of 3 local read results, chunks <= 2 bytes, <= 2 queued frames, credit <= 2. Multi-poll behaviour is covered only through these one-step contracts. Trusted: the mux models listed under C02.",
    ),
    "C16": dict(
        design_ref="DESIGN.md §4-C16",
        level_text="PARTIAL. Bounded model checking of the real schedule_ping_task under a virtual clock (model of tokio::time): for the enumerated (interval, timeout) pairs and every pong history the solver can choose over 3-5 ticks, exactly one Ping is sent per interval, KeepaliveTimeout is reported exactly when more than T has elapsed since the last pong or start-up (so never before T and never later than T+I after it), nothing happens when the interval is disabled, and the options API clamps T >= I for all whole-second values and for seconds 0..3 x tenths 0..9 (sub-second settings). The clause 'each ping answered within T never times out' is posed as stated; the solver returns histories where two in-time answers are more than T apart (the loop measures from the last pong, not from the ping) - recorded as a known finding.",
        level_note="Trusted: the tokio::time model (interval: first tick immediate, then every period, Skip behaviour), the other mux models. Ticks are exactly on time; consequences of the timeout for pending calls are C08's. Bounds: (I,T) pairs listed in the evidence, <= 5 ticks.",
    ),
    "C02": dict(
        design_ref="DESIGN.md §4-C02",
        level_text="Bounded model checking of the real write / sender-step / dispatch / read code as four local contracts (W, S, D, R) whose conjunction, with the codec property C09 and FIFO channels, gives the statement: every successful write yields exactly one Push carrying exactly its bytes for its own flow; the sender step forwards exactly the head of the outbound queue; a Push is appended to its own flow's queue only (bystander untouched); reads return the next bytes in order and pop a frame only when the previous one is used up. Each contract holds from every bounded state, so it covers schedules and histories of any length; the composition is a written argument.",
        level_note='Bounds: payloads <= 3 bytes, <= 2 queued frames, <= 3 flows. The end-to-end quantifier over interleavings is discharged by decomposition, not explored. Trusted: Kani/CBMC; sequential models of tokio channels/io/time, hashbrown, parking_lot (a lock taken while held = panic), bytes, tracing; enum layout pins in the scratch copy; the hand-written composition argument in DESIGN.md. Single-threaded execution: no real interleavings except the sequentialised race of C12.',
    ),
    "C03": dict(
        design_ref="DESIGN.md §4-C03",
        level_text="Bounded model checking of every transition of the credit accounting (initial credit = peer's advertised window; one unit per Push and none without credit; overrun resets only the offending flow; Acknowledge carries exactly the frames consumed since the last one and resets the counter; Acknowledge(n) adds exactly n) over full-width symbolic windows, thresholds and counters. The per-flow invariant credit + in-flight + queued + consumed-unacked + acks-in-flight = rwnd follows by induction over these steps (written argument).",
        level_note='Bounds: queue capacity 2; arithmetic full width. Trusted: Kani/CBMC; sequential models of tokio channels/io/time, hashbrown, parking_lot (a lock taken while held = panic), bytes, tracing; enum layout pins in the scratch copy; the hand-written composition argument in DESIGN.md. Single-threaded execution: no real interleavings except the sequentialised race of C12.',
    ),
    "C04": dict(
        design_ref="DESIGN.md §4-C04",
        level_text="PARTIAL. Decided by the solver for ALL accepted Options values and peer windows: every new stream's acknowledgement threshold satisfies 1 <= threshold <= the window this side advertised (the pinned tree clamped against the peer's window and deadlocked for e.g. rwnd 4 / threshold 8 / peer 16), an Acknowledge is emitted as soon as the threshold is reached, the connection task never blocks on a slow reader or a full datagram buffer, and a writer blocked on credit is woken when it arrives (C12). Eventual completion of writes under a fair scheduler is a liveness property and is not checked by this technique.",
        level_note='Only the safety conditions progress depends on are decided; no fairness or temporal reasoning. Trusted: Kani/CBMC; sequential models of tokio channels/io/time, hashbrown, parking_lot (a lock taken while held = panic), bytes, tracing; enum layout pins in the scratch copy; the hand-written composition argument in DESIGN.md. Single-threaded execution: no real interleavings except the sequentialised race of C12.',
    ),
    "C05": dict(
        design_ref="DESIGN.md §4-C05",
        level_text="Bounded model checking of the end-of-stream rules on the real MuxStream and Task code: a read reports EOF only if the inbound sender is gone and the queue is drained; a zero-length (plain or vectored) write is followed through the peer's inbound queue to the peer's reader and must not read as EOF nor lose later data; Finish closes only the inbound direction; shutdown emits Finish exactly once, keeps reading usable, and later writes fail with BrokenPipe without transmitting.",
        level_note='Bounds: <= 2 queued frames, writes of 0/1 bytes. Trusted: Kani/CBMC; sequential models of tokio channels/io/time, hashbrown, parking_lot (a lock taken while held = panic), bytes, tracing; enum layout pins in the scratch copy; the hand-written composition argument in DESIGN.md. Single-threaded execution: no real interleavings except the sequentialised race of C12.',
    ),
    "C06": dict(
        design_ref="DESIGN.md §4-C06",
        level_text='Bounded model checking of the close paths from an arbitrary bounded flow table: dropping a stream removes its slot and sends Reset exactly if Finish was not sent; a peer Reset is never answered, leaves queued data readable then EOF, makes writes fail with BrokenPipe; the table shrinks by exactly one; a bystander flow is untouched; re-opening the released id yields a flow with fresh credit, flags, queue and counters. The handle of an old, peer-aborted stream dropped after its id was reused must leave the new stream alone - this fails on the current tree and is recorded as a known finding (a drop notification carries only the id). One step from every bounded state covers open/close histories of any length.',
        level_note='Bounds: <= 3 slots; closed flow with symbolic credit/flags and one queued frame. Trusted: Kani/CBMC; sequential models of tokio channels/io/time, hashbrown, parking_lot (a lock taken while held = panic), bytes, tracing; enum layout pins in the scratch copy; the hand-written composition argument in DESIGN.md. Single-threaded execution: no real interleavings except the sequentialised race of C12.',
    ),
    "C07": dict(
        design_ref="DESIGN.md §4-C07",
        level_text="Bounded model checking of stream opening: id allocation over ALL RNG draw sequences (up to 4 draws) never yields 0 or an id in use and adds exactly one slot; a request emits exactly one Connect with the requested host bytes, port and own rwnd; an Acknowledge establishes the flow exactly once with the peer's window as credit; a rejected requester retries with a fresh id and fails with FlowIdRejected after exactly max_flow_id_retries attempts; the acceptor sees exactly host, port and credit and acknowledges with its own rwnd; a colliding Connect is Reset without disturbing the local request.",
        level_note="Bounds: retries 1 and 2, host 2 bytes, one live flow, 4 RNG draws. The peer's answers are applied through the functions process_frame dispatches to (dispatch itself: C10). Trusted: Kani/CBMC; sequential models of tokio channels/io/time, hashbrown, parking_lot (a lock taken while held = panic), bytes, tracing; enum layout pins in the scratch copy; the hand-written composition argument in DESIGN.md. Single-threaded execution: no real interleavings except the sequentialised race of C12.",
    ),
    "C11": dict(
        design_ref="DESIGN.md §4-C11",
        level_text="Bounded model checking of the datagram path: send_datagram refuses a host longer than 255 octets with DatagramHostTooLong and no other effect, and otherwise queues exactly one frame carrying flow id, host, port and payload unchanged (all symbolic, incl. id 0 and empty fields); the receive step from every buffer occupancy appends at the tail or drops when full, always returns Ok without blocking and without touching stream slots; what send_datagram emits for payloads of 0..4 bytes is accepted by the peer's decoder (the pinned tree rejected 0..3 bytes and tore the connection down).",
        level_note='Bounds: hosts 0,1,2 octets with symbolic contents (the refusal of a 256-octet host runs in the thorough tier; the instances with 3 and 255 octets are switched off: engine imprecision, DESIGN.md §8), payloads <= 4 bytes, buffer size 2. Trusted: Kani/CBMC; sequential models of tokio channels/io/time, hashbrown, parking_lot (a lock taken while held = panic), bytes, tracing; enum layout pins in the scratch copy; the hand-written composition argument in DESIGN.md. Single-threaded execution: no real interleavings except the sequentialised race of C12.',
    ),
    "C12": dict(
        design_ref="DESIGN.md §4-C12",
        level_text="PARTIAL. Sequentialised two-party race decided by the solver over the real poll_obtain_write_permission, acknowledge and disallow_write with the real futures AtomicWaker: the other party's whole operation is injected before the writer's poll, at each place where the poll logs (scheduling points provided by the tracing model), or after it; whenever the poll returns Pending although credit arrived or the stream was closed, a wake-up must have been delivered, and the final credit equals grants minus permissions. This reproduces the pinned tree's lost wake-up (acknowledge between the credit load and the waker registration). Two further instances observe what is visible at the very moment the blocked writer's waker fires: the returned credit / the closed flag must already be there (a writer re-polled at that moment on another thread would otherwise sleep for ever). Since the atomics of the scratch copy are instrumented wrappers (a scheduling point before every atomic operation), the injection also happens immediately before the k-th ATOMIC operation of the writer's poll, and - the other way round - the writer's whole poll is injected immediately before the k-th atomic operation of acknowledge / disallow_write (initial credit 0..2): a load/store pair standing in for a read-modify-write loses the writer's decrement and is reported (credit after the race is not grants minus frames sent). One of the two operations is always executed as a whole; interleavings in which both are split, and weak-memory behaviours, are outside what Kani can express.",
        level_note='Sequential consistency; whole-operation injection at log sites and at atomic operations; compare_exchange_weak without spurious failures; one writer. A witness guards against the scheduling points disappearing. Trusted: Kani/CBMC; sequential models of tokio channels/io/time, hashbrown, parking_lot (a lock taken while held = panic), bytes, tracing; enum layout pins in the scratch copy; the hand-written composition argument in DESIGN.md. Single-threaded execution: no real interleavings except the sequentialised race of C12.',
    ),
    "C15": dict(
        design_ref="DESIGN.md §4-C15",
        level_text='Bounded model checking of bind requests on the real code: one Bind frame per request under a fresh non-zero id with the requested type, host and port; with a second bind pending and answered first, each request resolves exactly once with its own verdict (Finish -> true, Reset -> false, teardown -> false/Closed) and the ids are released; a second request that reuses the id of an answered one before the first requester is polled again is left alone by the completion of the first; the responder shows the application exactly the request and emits exactly one answer (Finish on accept, Reset on reject or drop) - the pinned tree sent a second frame when the request object was dropped after replying.',
        level_note='Bounds: two concurrent binds, host 1 byte. Trusted: Kani/CBMC; sequential models of tokio channels/io/time, hashbrown, parking_lot (a lock taken while held = panic), bytes, tracing; enum layout pins in the scratch copy; the hand-written composition argument in DESIGN.md. Single-threaded execution: no real interleavings except the sequentialised race of C12.',
    ),
    "C10": dict(
        design_ref="DESIGN.md §4-C10",
        level_text="Bounded model checking of the real Task::process_frame: for every opcode (all field values symbolic) and every state of the addressed flow (absent, requested, bind-requested, established with room / full / half-closed), with an arbitrary bystander flow on the same endpoint, the step must return Ok without panicking or blocking, emit exactly the reply PROTOCOL.md prescribes (Reset for unknown flows, never a Reset in reply to a Reset, Reset of only the offending flow on window overrun) and leave the bystander's state and queued data untouched. One step from every bounded state covers frame sequences of any length.",
        level_note="Trusted: Kani/CBMC; models of tokio channels, hashbrown, bytes, parking_lot_core (a contended lock = panic), tracing; enum layout pins in the scratch copy. Bounds: <= 3 flows, rwnd 2, payload 2 bytes. Single-threaded: interleavings with application threads are not explored here (C12 covers the writer/ack race).",
    ),
    "C19": dict(
        design_ref="DESIGN.md §4-C19",
        level_text="PARTIAL claim, three parts. (1) Bounded model checking (Kani) of penguin_mux::timing::Backoff with the parameters of the client's call site (extracted from the current penguin/src/client/mod.rs): for ALL max_retry_interval (u64 ms) and max_retry_count (u32), the k-th consecutive failure is delayed by min(200 ms x 2^k, max), the generator gives up exactly after max_retry_count failures (never if 0), reset() restores the shortest delay, no Duration arithmetic panics; plus concrete-parameter runs of 45-70 consecutive failures (command-line defaults, a capped+limited and an uncapped configuration). (2) Source-to-SMT translation of the client's retry loop (gate/retry.py): where reset() is attached, the order and shape of the match arms and the use of advance()'s value are extracted from the current client/mod.rs; for every sequence of 6 loop iterations over {orderly quit, handshake failure retryable/fatal, established-then-lost retryable/fatal} and max_retry_count 0..4, z3 and cvc5 must agree that the loop's trace (delay exponents, way of ending) equals the specification's (k-th consecutive failure, restart after any established connection, give-up, non-retryable ends at once); a counterexample is replayed against the loop's own text compiled in the crate with scripted stubs for its three environment calls. (3) Source-to-SMT translation of the CONNECTED main loop and the parked stream request (gate/connected.py): the arms of on_connected's tokio::select! (pattern, awaited source, what the body does with the value), the prelude that retries a parked request, the arms of get_send_stream_chan and the unit variants classified retryable are extracted from the current sources; over 5 loop iterations with the moment and way the multiplexor task ends, the arrival of local events, the arm select! picks and the call results symbolic, z3 and cvc5 must agree that once the task has ended the loop never sleeps, leaves within two iterations without a local event, and leaves with a retryable error (never Ok / the Ctrl-C path); and that a request taken from the queue is delivered, parked or user-cancelled and a parked request is tried first by the next connection. A counterexample is replayed against the REAL on_connected with a real tungstenite / penguin-mux peer on loopback (three scenarios). This part found the pinned defect named in the property text (orderly server close: the client keeps running on the dead multiplexor), fixed in 4c05ee4. NOT covered: which concrete io/tungstenite errors are classified retryable, listeners staying open, a local connection accepted while the tunnel is down (the bounded request channel between listeners and main loop) - real sockets/signals in the rusty-penguin crate.",
        level_note="Trusted: Kani/CBMC; z3/cvc5; the extraction grammars of gate/retry.py and gate/connected.py (anything outside them is INCONCLUSIVE); Backoff's contract links parts 1 and 2; tokio::select!'s semantics and the behaviour of JoinSet / Multiplexor after the task's end are modelled from their documentation in part 3. Bounds: symbolic-parameter schedules k <= 6 (quick) / 12 (thorough); retry loop 6 iterations; connected loop 5 iterations, one request through two consecutive connections.",
        technique="bounded symbolic execution of the real Backoff (Kani/CBMC) + source-level extraction of the client's retry loop and of its connected select! loop into SMT-LIB decided by z3 and cvc5 (must agree), counterexamples replayed against the loop's own text / the real on_connected over loopback",
    ),
    "C18": dict(
        design_ref="DESIGN.md §4-C18",
        level_text="Two parts. (1) Bounded model checking (Kani) of the real penguin-socks readers and writers against a reference grammar written from RFC 1928 / SOCKS4a: for every message length around each field boundary (all truncation points) and ALL octet values, the readers must return exactly (command, address, port), consume exactly the request, and fail on truncated/unterminated/unknown input; replies and the UDP relay datagram must be byte-exact as a conforming client parses them. The solver covers all octet values, which is how the ATYP-after-address reply and the unterminated SOCKS4 field were found. Covered this way: SOCKS5 method negotiation, both reply writers, the UDP relay header parser/builder, the SOCKS4/4a request reader. (2) The SOCKS5 request reader (v5::read_request / read_address), whose Kani instances do not finish (365 k steps / 20 GB each), is decided by source-to-SMT translation (gate/socks5.py): its statement list (fixed-width reads, version guard, buffers, read_exact / read_buf, the match on the address type, the reply for an unknown type, the returned triple) is extracted from the current v5.rs and magics.rs and executed symbolically over a message of symbolic length 0..300 whose octets are an uninterpreted function, with tokio's documented semantics of the read helpers (read_buf = one read of a solver-chosen size, i.e. every segmentation of the input); z3 and cvc5 must agree that the outcome (accepted or rejected, command, which octets form the address and how they are rendered, port, octets consumed, reply written) equals RFC 1928's for EVERY message - every domain length 0..255, every truncation point, every address-type octet. A counterexample is written out and replayed against the real v5::read_request over an in-memory stream that delivers one octet per read, next to an independent reference parser. NOT covered: the three longest SOCKS4/4a shapes (their Kani instances do not finish within 3000 s / 20 GB).",
        level_note="Trusted: Kani/CBMC, the tokio io shim (read_exact/read_uN/read_until/write_all written from tokio's docs), the bytes model, the reference grammar; for part 2 the statement grammar of gate/socks5.py (anything outside it is INCONCLUSIVE), tokio's documented read_uN/read_exact/read_buf semantics, std's address rendering as an uninterpreted function, z3/cvc5. Bounds: part 1 domain/user-id <= 2 octets, payload <= 3 octets, IP addresses that are rendered as text fixed; part 2 messages of 0..300 octets (complete for SOCKS5 requests, whose maximum length is 262).",
        technique="bounded symbolic execution of the real code (Kani 0.68 / CBMC 6.11 + CaDiCaL, unwinding assertions on) + source-level extraction of the SOCKS5 request reader into SMT-LIB decided by z3 and cvc5 (must agree), counterexamples replayed against the real reader",
    ),
    "C09": dict(
        design_ref="DESIGN.md §4-C09",
        level_text="Bounded model checking of the real frame codec (penguin_mux::frame) against an independent reference written from PROTOCOL.md: every public constructor with symbolic field values and enumerated host/payload lengths must encode to the reference bytes and decode back (borrowed and owned) to an equal frame; for EVERY byte string of each enumerated length the decoder must accept exactly the valid ones, never panic in a production build, and re-encode to the input. The solver covers all contents at once, which is where the pinned decoder was wrong (Datagram payloads of 0-3 bytes).",
        level_note="Trusted: Kani/CBMC, the `bytes` model, the reference layout in the harness. Bounds: hosts <= 3 bytes, payloads <= 5 bytes, byte strings <= 12 (quick) / 16 (thorough) bytes; longer inputs are outside the claim. Error variants are not compared.",
    ),
    "C20": dict(
        design_ref="DESIGN.md §4-C20",
        level_text="Bounded model checking of the real cow-bytes crate: every LongChain/CowBytes operation is executed symbolically from every valid chain of the enumerated shapes (<=3 chunks of 1..3 bytes, symbolic contents and variants) with a symbolic argument ranging to two past the end, and compared with a flat byte-array model; CBMC decides all values at once. This is the right level because the defects live at argument boundaries no unit test samples (truncate past the end, empty segments), and a single step from an arbitrary valid state covers operation sequences of any length.",
        level_note="Trusted: Kani/CBMC, the `bytes` model (Static variant), the harness-side reference model. Bounds: <=3 chunks, <=3 bytes per chunk, argument <= total+2; longer chains are outside the claim. Out-of-range arguments may panic (allowed outcome) — panics are classified by the driver, silent corruption is a violation; arithmetic-overflow checks count as violations because they wrap in production builds.",
    ),
}
