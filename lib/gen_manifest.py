#!/usr/bin/env python3
"""Regenerates /verif/MANIFEST.json from the property tables (keeps it schema-valid)."""
import json
import sys
from pathlib import Path

VERIF = Path(__file__).resolve().parent.parent
sys.path.insert(0, str(VERIF / "lib"))
import props  # noqa: E402

TEXT = props.MANIFEST_TEXT
NA = props.NOT_APPLICABLE

checks = []
for pid in sorted(props.PROPS):
    t = TEXT[pid]
    checks.append({
        "property_id": pid,
        "quick_cmd": f"./check {pid} --tier quick",
        "thorough_cmd": f"./check {pid} --tier thorough",
        "evidence_file": f"evidence/{pid}.json",
        "replay_cmd_template": f"./check {pid} --replay {{path}}",
        "engine": t.get("engine", "kani-cbmc"),
        "level_claimed": {"category": "model_checking", "text": t["level_text"], "design_ref": t["design_ref"]},
        "level_note": t["level_note"],
        "technique": t.get("technique", "bounded symbolic execution of the real code: Kani 0.68 harnesses over kani::any() inputs, decided by CBMC 6.11 + CaDiCaL, unwinding assertions on"),
    })

for pid, (eng, q, t) in sorted(getattr(props, "EXTRA_CHECKS", {}).items()):
    tx = TEXT[pid]
    checks.append({
        "property_id": pid, "quick_cmd": q, "thorough_cmd": t, "evidence_file": f"evidence/{pid}.json",
        "engine": eng, "level_claimed": {"category": "model_checking", "text": tx["level_text"], "design_ref": tx["design_ref"]},
        "level_note": tx["level_note"], "technique": tx["technique"],
    })
checks.sort(key=lambda c: c["property_id"])
claimed = {c["property_id"] for c in checks}

man = {
    "version": 1,
    "setup_cmd": "./setup.sh",
    "hooks": {
        "guard": "cfg(kani)",
        "enable": "no source hooks in /repo: every check copies /repo's working tree to a scratch workspace, appends `#[cfg(kani)] #[path = ...] mod ...;` lines to the COPY only and builds it with cargo kani (which sets cfg(kani)); dependency shims are substituted through [patch.crates-io] in the copy",
        "baseline_off_cmd": "cd /repo && (cargo nextest run --workspace --no-fail-fast --tool-config-file pb:/w/lib/nextest.toml --profile pb --test-threads 8 --offline || cargo test --workspace --no-fail-fast --offline)",
        "source_commits": [],
        "add_only": True,
    },
    "engines": [
        {"name": "gate-smt", "path": "gate/extract.py", "serves_properties": ["C14"],
         "kind_free_text": "source-level extraction of the upgrade gate into SMT-LIB, decided by z3 4.8.12 and cvc5 1.0 (must agree); counterexamples replayed against the real hyper Service"},
        {"name": "kani-cbmc", "path": "lib/vdriver.py", "serves_properties": sorted(p for p in props.PROPS if TEXT[p].get("engine", "kani-cbmc") == "kani-cbmc"),
         "kind_free_text": "bounded symbolic execution of the real crates (Kani 0.68 -> goto program -> CBMC 6.11 / CaDiCaL); one harness = one step or case; the verdict is the solver's, over all symbolic inputs within the stated bounds; counterexamples are replayed natively against the real dependency stack before being reported"},
    ],
    "checks": checks,
    "not_applicable": [{"property_id": k, "reason": v} for k, v in sorted(NA.items()) if k not in claimed],
    "notes": "Exit codes of ./check: 0 held (KNOWN-FINDING lines possible), 1 replayed violation, 2 inconclusive (harness no longer compiles against the tree, bound too small, out of memory/time, non-reproducing counterexample). See DESIGN.md.",
}
(VERIF / "MANIFEST.json").write_text(json.dumps(man, indent=1) + "\n")
print(f"MANIFEST.json: {len(checks)} checks, {len(man['not_applicable'])} not applicable")
