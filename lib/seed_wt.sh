#!/bin/bash
# Usage: lib/seed_wt.sh <SEED-ID> "<cargo test filter args>" <check-id> [more check ids ...]   (env TIER, EXTRA)
# Confirms the seed in its scratch worktree /tmp/wt-<ID> (lib/seed_confirm.sh), then applies the
# patch THERE and runs the given checks against that worktree (VERIF_REPO), never touching /repo.
SID=$1; FILTER=$2; shift; shift
WT=/tmp/wt-$SID
/verif/lib/seed_confirm.sh $SID $FILTER > /tmp/confirm-$SID.out 2>&1
cd $WT && git checkout -q -- . && git apply SEED/patch.diff || { echo "patch does not apply"; exit 9; }
cd /verif
for c in "$@"; do
  echo "=== seed $SID vs check $c (${TIER:-quick}) [worktree $WT]"
  VERIF_REPO=$WT VERIF_EVIDENCE_DIR=/tmp/ev-$SID ./check $c --tier ${TIER:-quick} $EXTRA 2>&1 | grep -E "VIOLATION|INCONCLUSIVE|KNOWN|^  harness=|\] harness instances|-> exit" | cut -c1-300
  echo "exit=${PIPESTATUS[0]}"
done
git -C $WT checkout -q -- .
