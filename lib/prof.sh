#!/bin/sh
# Usage: lib/prof.sh <kept scratch dir> <harness name> <kind-profile e.g. ext-dev> [seconds] [unwind]
# Shows which loops/functions dominate symbolic execution of one harness.
D=$1; H=$2; KP=$3; SECS=${4:-60}; UNW=${5:-20}
G=$(find $D/target-$KP -name "*${H}.symtab.out" | head -1)
[ -z "$G" ] && { echo "no goto file for $H"; exit 1; }
N=$(basename $G .symtab.out | sed 's/.*__R/_R/')
T=$D/prof.out
goto-cc $G $HOME/.kani/kani-0.68.0/library/kani/kani_lib.c -o $T && goto-cc $T --function $N -o $T && \
goto-instrument --add-library --no-malloc-may-fail $T $T >/dev/null 2>&1 && \
goto-instrument --generate-function-body-options assert-false-assume-false --generate-function-body '.*' --drop-unused-functions $T $T >/dev/null 2>&1 && \
goto-instrument --ensure-one-backedge-per-target $T $T >/dev/null 2>&1
US=""
if [ -n "$VEC" ]; then
  IDS=$(goto-instrument --show-loops $T 2>/dev/null | python3 -c "
import re,sys
sys.path.insert(0,'/verif/lib')
import props
sl=sys.stdin.read()
out=[]
for m in re.finditer(r'^Loop (\S+):\n\s+file .*? function (.*)\$', sl, re.M):
    for rx,b in props.vec_loops($VEC):
        if re.search(rx,m.group(2)):
            out.append(m.group(1)+':'+str(b)); break
print(','.join(out))")
  US="--unwindset $IDS"
fi
timeout $SECS cbmc $US --no-malloc-may-fail --no-undefined-shift-check --no-signed-overflow-check --nan-check --no-self-loops-to-assumptions --no-pointer-primitive-check --object-bits 16 --max-field-sensitivity-array-size 1024 --unwind $UNW --sat-solver cadical --slice-formula $T --verbosity 9 > $D/prof.log 2>&1
echo "== loops unwound most"
grep "^Unwinding loop" $D/prof.log | sed 's/ iteration.*function / /; s/ thread 0//' | sort | uniq -c | sort -rn | head -${6:-15} | cut -c1-400
echo "== aborting path by function"
grep "^aborting path" $D/prof.log | sed 's/.*function //; s/ thread 0//' | sort | uniq -c | sort -rn | head -12 | cut -c1-300
grep -E "size of program|Runtime Symex" $D/prof.log
