#!/bin/bash
# Usage: lib/seed_confirm.sh <ID> <cargo test filter args...>
# Re-confirms a seeded change in its scratch worktree /tmp/wt-<ID>: demo fails with the patch,
# passes without it; existing suite (penguin-mux, cow-bytes, penguin-socks) passes with it.
# Writes /verif/seeded/<ID>/{patch.diff,demo.diff,notes.md,confirm.log}
ID=$1; shift
WT=/tmp/wt-$ID
OUT=/verif/seeded/$ID
mkdir -p $OUT
cp $WT/SEED/patch.diff $WT/SEED/demo.diff $WT/SEED/notes.md $OUT/ 2>/dev/null
export CARGO_NET_OFFLINE=true CARGO_TARGET_DIR=$WT/target
cd $WT
git checkout -q -- . 2>/dev/null; git clean -fdq -e SEED -e target 2>/dev/null
{
echo "== clean tree + demo (must PASS)"
git apply SEED/demo.diff || echo "DEMO APPLY FAILED"
timeout 1500 cargo test --offline "$@" 2>&1 | grep -E "^test |test result|error(\[|:)" | head -20
echo "== patch + demo (must FAIL)"
git apply SEED/patch.diff || echo "PATCH APPLY FAILED"
timeout 1500 cargo test --offline "$@" 2>&1 | grep -E "^test |test result|error(\[|:)|panicked" | head -20
echo "== patch only: existing suite (must PASS)"
git apply -R SEED/demo.diff
timeout 2400 cargo test -p penguin-mux -p cow-bytes -p penguin-socks --offline 2>&1 | grep -E "test result|FAILED|error(\[|:)" | head -12
git checkout -q -- . ; git clean -fdq -e SEED -e target
} > $OUT/confirm.log 2>&1
tail -30 $OUT/confirm.log
