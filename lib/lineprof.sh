#!/bin/sh
# Usage: lib/lineprof.sh <h.out kept with VERIF_KEEP_GOTO=1> <seconds> <unwind> [extra cbmc args]
# Per-source-line count of symbolic-execution steps (cbmc --verbosity 10 prints one line per step).
T=$1; SECS=$2; UNW=$3; shift 3
timeout $SECS cbmc --no-malloc-may-fail --no-undefined-shift-check --no-signed-overflow-check --nan-check --no-self-loops-to-assumptions --no-pointer-primitive-check --object-bits 16 --max-field-sensitivity-array-size 1024 --unwind $UNW "$@" --sat-solver cadical --slice-formula $T --verbosity 10 2>&1 | grep "^BMC at file" | sed 's/^BMC at file \(.*\) line \([0-9]*\).*/\1:\2/' | awk -F/ '{n=NF; s=$n; for(i=n-1;i>n-4&&i>0;i--) s=$i"/"s; print s}' | sort | uniq -c | sort -rn
