#!/usr/bin/env python3
"""Driver for the solver-based checks of penguin-rs (see /verif/DESIGN.md §3).

One invocation decides one property:

    ./check C20 [--tier quick|thorough] [--jobs N] [--harness REGEX] [--keep] [--no-replay]

* copies the relevant crates of /repo's *current working tree* into a scratch workspace,
* mounts the harness files, substitutes the dependency shims through [patch.crates-io],
* compiles every selected harness once with `cargo kani --only-codegen`,
* runs the goto-cc / goto-instrument / cbmc pipeline (exactly the commands Kani 0.68 runs)
  for every harness in parallel under a memory and time limit, reads CBMC's JSON verdicts,
* classifies failures, replays counterexamples natively, applies known_findings.json,
* writes evidence/<ID>.json and prints the verdict.

Exit codes: 0 = property held on everything explored (known findings are reported),
1 = replayed violation (prints `VIOLATION property=<id> replay=<path>`),
2 = inconclusive (harness does not compile against the tree, bound too small, OOM, timeout,
    counterexample that does not reproduce natively, shim disagreement).
"""
from __future__ import annotations

import argparse
import concurrent.futures as cf
import hashlib
import json
import os
import re
import resource
import shutil
import signal
import subprocess
import sys
import threading
import time
from pathlib import Path

VERIF = Path(__file__).resolve().parent.parent
REPO = Path(os.environ.get("VERIF_REPO", "/repo"))
# evidence directory (overridden when a check is pointed at a seeded worktree, so that the committed evidence is not overwritten)
EVID = Path(os.environ.get("VERIF_EVIDENCE_DIR", str(VERIF / "evidence")))
KANI_HOME = Path(os.environ.get("KANI_HOME", str(Path.home() / ".kani"))) / "kani-0.68.0"
KANI_LIB_C = KANI_HOME / "library" / "kani" / "kani_lib.c"

CBMC_FLAGS = [
    "--no-malloc-may-fail", "--no-undefined-shift-check", "--no-signed-overflow-check",
    "--nan-check", "--no-self-loops-to-assumptions", "--no-pointer-primitive-check",
    "--object-bits", "16", "--sat-solver", "cadical", "--slice-formula",
]

MUX_FEATURES = "std,nohash,tokio-io-util,tokio-time"

SHIMS_ALL = ["bytes", "tokio", "hashbrown", "parking_lot", "parking_lot_core", "tracing", "tracing-attributes"]

# property classes whose failure is not a verdict about the property
CLASS_UNWIND = {"unwind"}
CLASS_UNSUPPORTED = {"unsupported_construct"}
CLASS_IGNORE = {"reachability_check"}
OVERFLOW_RE = re.compile(r"attempt to (add|subtract|multiply|negate|shift|divide|calculate|compute)")
CLASS_UB = {"pointer_dereference", "safety_check", "precondition_instance", "pointer_arithmetic",
            "pointer", "memory-leak", "deallocated-dynamic-object", "dead-object", "pointer_primitives"}


def log(*a):
    print(*a, file=sys.stderr, flush=True)


def sha256_file(p: Path) -> str:
    h = hashlib.sha256()
    h.update(p.read_bytes())
    return h.hexdigest()


def sha256_tree(root: Path, rel: list[str]) -> str:
    h = hashlib.sha256()
    for r in rel:
        base = root / r
        if base.is_file():
            h.update(r.encode())
            h.update(base.read_bytes())
            continue
        for p in sorted(base.rglob("*")):
            if p.is_file() and "target" not in p.parts:
                h.update(str(p.relative_to(root)).encode())
                h.update(p.read_bytes())
    return h.hexdigest()


# --------------------------------------------------------------------------------------------
# Harness specification
# --------------------------------------------------------------------------------------------
class H:
    """One harness instance: a `#[kani::proof]` function in a given build profile."""

    def __init__(self, name, tier="quick", profiles=("rel",), allow=(), note="", timeout=None,
                 mem_gb=None, extra_cbmc=(), optional_covers=(), allow_panics=False, unwindset=()):
        self.name = name
        self.tier = tier
        self.profiles = tuple(profiles)
        self.allow = [re.compile(a) for a in allow]
        self.note = note
        self.timeout = timeout
        self.mem_gb = mem_gb
        self.extra_cbmc = list(extra_cbmc)
        if allow_panics and not optional_covers:
            optional_covers = [r"operation returned"]
        self.optional_covers = [re.compile(x) for x in (optional_covers or [])]
        self.allow_panics = allow_panics
        # [(regex on the pretty function name of a loop, bound)]: per-loop unwinding bounds for
        # loops that are only reachable under an infeasible guard (an enum discriminant the
        # symbolic execution cannot fold).  Unwinding assertions stay on: if such a loop can
        # really run longer, the result is INCONCLUSIVE, never a silent truncation.
        self.unwindset = [(re.compile(a), int(b)) for a, b in unwindset]


# --------------------------------------------------------------------------------------------
# Scratch workspace
# --------------------------------------------------------------------------------------------
class Scratch:
    def __init__(self, tag: str, keep: bool = False):
        base = Path(os.environ.get("VERIF_SCRATCH", "/var/tmp"))
        self.root = base / f"verif-{tag}-{os.getpid()}"
        self.keep = keep

    def __enter__(self):
        if self.root.exists():
            shutil.rmtree(self.root)
        self.root.mkdir(parents=True)
        return self

    def __exit__(self, *exc):
        if not self.keep:
            shutil.rmtree(self.root, ignore_errors=True)
        else:
            log(f"[keep] scratch left at {self.root}")
        return False


REPO_CRATES = ["cow-bytes", "penguin-mux", "penguin-socks"]

MOUNTS = {
    # file in the copy -> harness module file (relative to VERIF/harness/mux) and module name
    "penguin-mux/src/lib.rs": [("common.rs", "verif_common", "pub(crate) ")],
    "penguin-mux/src/task.rs": [("task_h.rs", "verif_kani_task", "")],
    "penguin-mux/src/stream.rs": [("stream_h.rs", "verif_kani_stream", "")],
    "penguin-mux/src/stream_tools/copy_bidirectional.rs": [("bridge_h.rs", "verif_kani_bridge", "")],
    "penguin-mux/src/timing.rs": [("timing_h.rs", "verif_kani_timing", "")],
    "penguin-mux/src/config.rs": [("config_h.rs", "verif_kani_config", "")],
}


def profile_body(profile: str) -> str:
    """`dev`: debug assertions and overflow checks on (what `cargo test`/debug builds do);
    `rel`: both off (what the shipped binary does; Kani still *reports* overflow);
    `release`: like `rel` and optimised - only used for native replay."""
    if profile == "dev":
        return "debug-assertions = true\noverflow-checks = true"
    if profile == "release":
        return "debug-assertions = false\noverflow-checks = false\nopt-level = 3"
    return "debug-assertions = false\noverflow-checks = false"


# Enums whose layout is pinned to an explicit u8 tag IN THE SCRATCH COPY, under cfg(kani) only.
# Rust niche-encodes e.g. `Payload`'s discriminant inside a field of its largest variant; CBMC
# reads that through a union and cannot fold it even for a frame that was just constructed, so
# every `match payload` explores all arms (x4-x10 cost, OOM for Datagram).  `repr(u8)` changes
# only the memory layout, not the behaviour of safe code (none of the crates under test
# contains `unsafe`).  A pattern that no longer matches is skipped (slower, not wrong).
LAYOUT_PINS = {
    "penguin-mux/src/frame.rs": ["PushPayload", "Payload"],
    "cow-bytes/src/lib.rs": ["CowBytes"],
    "penguin-mux/src/lib.rs": ["FlowSlot"],
    "penguin-mux/src/ws.rs": ["Message"],
}


def pin_enum_layouts(dst: Path):
    done = []
    for rel, names in LAYOUT_PINS.items():
        f = dst / rel
        if not f.exists():
            continue
        txt = f.read_text()
        for n in names:
            new = re.sub(r"(\n)((?:pub(?:\(crate\))? )?enum " + n + r"\b)", r"\1#[cfg_attr(kani, repr(u8))]\n\2", txt, count=1)
            if new != txt:
                done.append(f"{rel}:{n}")
                txt = new
        f.write_text(txt)
    return done


def instrument_atomics(dst: Path):
    """In the scratch copy, under cfg(kani) only: `crate::loom::{AtomicU32, AtomicBool}` become the
    instrumented wrappers of harness/mux/common.rs (a scheduling point before every atomic
    operation, used by the C12 instances at atomic granularity).  If the re-export line is not
    found the copy is left alone; the atomic-granularity instances then never pass a scheduling
    point and end INCONCLUSIVE (their witness is required)."""
    f = dst / "penguin-mux" / "src" / "loom.rs"
    if not f.exists():
        return False
    txt = f.read_text()
    pat = re.compile(r"#\[cfg\(not\(all\(loom, test\)\)\)\]\s*\npub use core::sync::atomic::\{AtomicBool, AtomicU32, Ordering\};")
    if not pat.search(txt):
        return False
    txt = pat.sub("#[cfg(all(not(all(loom, test)), not(kani)))]\npub use core::sync::atomic::{AtomicBool, AtomicU32, Ordering};\n"
                  "#[cfg(kani)]\npub use core::sync::atomic::Ordering;\n"
                  "#[cfg(kani)]\npub use crate::verif_common::{VAtomicBool as AtomicBool, VAtomicU32 as AtomicU32};", txt, count=1)
    f.write_text(txt)
    return True


def neutralise_unit_tests(repo_copy: Path):
    """Native replay runs through `cargo test`; the crate's own unit tests (and their
    dev-dependencies: hyper, tokio runtime, ...) are not wanted there and do not build against
    the retained models.  In the replay copy only: cfg(test) items off, cfg(not(test)) items
    on, dev-dependencies and benches removed."""
    for f in (repo_copy / "penguin-mux" / "src").rglob("*.rs"):
        t = f.read_text()
        t2 = t.replace("#[cfg(test)]", "#[cfg(any())]").replace("#[cfg(not(test))]", "#[cfg(all())]")
        if t2 != t:
            f.write_text(t2)
    m = repo_copy / "penguin-mux" / "Cargo.toml"
    t = m.read_text()
    t = re.sub(r"\[dev-dependencies\].*?(?=\n\[)", "", t, flags=re.S)
    t = re.sub(r"\[\[bench\]\].*?(?=\n\[)", "", t, flags=re.S)
    m.write_text(t)


def patches_text(shims: list[str], shim_dir: Path) -> str:
    return "\n".join(f'{s} = {{ path = "{shim_dir / s}" }}' for s in shims)


def copy_repo(dst: Path, profile: str, shims: list[str], shim_dir: Path, mount: bool, harness_dir: Path, atomics: bool = False):
    """Copy the crates under test from /repo's working tree and adapt only the copy."""
    dst.mkdir(parents=True)
    for c in REPO_CRATES:
        shutil.copytree(REPO / c, dst / c, ignore=shutil.ignore_patterns("target"))
    shutil.copy(REPO / "Cargo.lock", dst / "Cargo.lock")
    man = (REPO / "Cargo.toml").read_text()
    man = re.sub(r"members = \[.*?\]", 'members = ["penguin-mux", "penguin-socks", "cow-bytes"]', man, count=1, flags=re.S)
    man = re.sub(r"default-members = \[.*?\]", 'default-members = ["penguin-mux"]', man, count=1, flags=re.S)
    man += f"\n[profile.dev]\n{profile_body(profile)}\n"
    if shims:
        man += "\n[patch.crates-io]\n" + patches_text(shims, shim_dir) + "\n"
    (dst / "Cargo.toml").write_text(man)
    pin_enum_layouts(dst)
    if mount and atomics:
        # only for the properties whose instances use atomic scheduling points (C12, C03): the
        # wrappers double the symbolic-execution cost of everything that touches a stream
        instrument_atomics(dst)
    if mount:
        for rel, mods in MOUNTS.items():
            f = dst / rel
            if not f.exists():
                continue
            txt = f.read_text()
            for (hfile, modname, vis) in mods:
                hp = harness_dir / "mux" / hfile
                if hp.exists():
                    txt += f'\n#[cfg(kani)]\n#[path = "{hp}"]\n{vis}mod {modname};\n'
            f.write_text(txt)


def make_ext(dst: Path, repo_copy: Path, profile: str, shims: list[str], shim_dir: Path, harness_dir: Path, ext_dir: str = "ext"):
    dst.mkdir(parents=True)
    shutil.copytree(harness_dir / ext_dir / "src", dst / "src")
    t = (harness_dir / ext_dir / "Cargo.toml.in").read_text()
    t = t.replace("@REPO@", str(repo_copy)).replace("@PROFILE@", profile_body(profile))
    t = t.replace("@PATCHES@", patches_text(shims, shim_dir))
    (dst / "Cargo.toml").write_text(t)
    shutil.copy(REPO / "Cargo.lock", dst / "Cargo.lock")
    if ext_dir == "ext1":
        # C01: the client's UDP reply routing, TEXT extracted from the CURRENT source
        try:
            (dst / "src" / "c01_extracted.rs").write_text(extract_udp_maps())
        except ExtractError as e:
            (dst / "src" / "c01_extracted.rs").write_text(f"compile_error!({json.dumps('extraction from penguin/src/client/mod.rs failed: ' + str(e))});\n")
        return
    # C19: the back-off parameters at the client's call site, from the CURRENT source
    cs = extract_backoff_callsite()
    if cs:
        (dst / "src" / "callsite.rs").write_text(
            f"pub mod callsite {{ pub const INITIAL_MS: u64 = {cs[0]}; pub const MULT: u32 = {cs[1]}; }}\n")
    else:
        (dst / "src" / "callsite.rs").write_text("compile_error!(\"Backoff::new call site not recognised in penguin/src/client/mod.rs\");\n")


class ExtractError(Exception):
    pass


def _balanced_end(src: str, i: int) -> int:
    """index of the bracket matching src[i] (strings and comments skipped)"""
    pairs = {"{": "}", "(": ")", "[": "]"}
    o, c = src[i], pairs[src[i]]
    d, j, n = 0, i, len(src)
    while j < n:
        ch = src[j]
        if ch == '"':
            j += 1
            while j < n and src[j] != '"':
                j += 2 if src[j] == "\\" else 1
        elif src.startswith("//", j):
            j = src.index("\n", j)
        elif ch == o:
            d += 1
        elif ch == c:
            d -= 1
            if d == 0:
                return j
        j += 1
    raise ExtractError("unbalanced brackets")


def _item(src: str, head_re: str, what: str) -> str:
    m = re.search(head_re, src)
    if not m:
        raise ExtractError(f"{what} not found")
    i = src.index("{", m.end() - 1)
    # a fn signature may contain parentheses/generics before the body: find the body's brace
    j = _balanced_end(src, i)
    return src[m.start():j + 1]


def _fn(src: str, name: str) -> str:
    m = re.search(r"(?:pub(?:\([a-z]+\))?\s+)?(?:async\s+)?fn\s+" + name + r"\s*\(", src)
    if not m:
        raise ExtractError(f"fn {name} not found")
    p = _balanced_end(src, m.end() - 1)
    i = src.index("{", p)
    j = _balanced_end(src, i)
    return src[m.start():j + 1]


def extract_udp_maps() -> str:
    """The items of penguin/src/client/mod.rs that decide where a UDP reply goes, as text."""
    f = REPO / "penguin" / "src" / "client" / "mod.rs"
    c = REPO / "penguin" / "src" / "config.rs"
    if not f.exists() or not c.exists():
        raise ExtractError("penguin/src/client/mod.rs or penguin/src/config.rs missing")
    src = f.read_text()
    # only the non-test part
    mt = re.search(r"#\[cfg\(test\)\]\s*mod\s+tests\s*\{", src)
    if mt:
        src = src[:mt.start()]
    cm = re.search(r"#\[cfg\(not\(test\)\)\]\s*pub const UDP_PRUNE_TIMEOUT:\s*time::Duration\s*=\s*time::Duration::from_secs\((\d+)\);", c.read_text())
    if not cm:
        raise ExtractError("config::UDP_PRUNE_TIMEOUT (non-test) not recognised")
    hr_impl = _item(src, r"impl\s+HandlerResources\s*\{", "impl HandlerResources")
    add = _fn(hr_impl, "add_udp_client")
    prune = _fn(hr_impl, "prune_udp_clients")
    maps_s = _item(src, r"pub struct ClientIdMaps\s*\{", "struct ClientIdMaps")
    maps_i = _item(src, r"impl\s+ClientIdMaps\s*\{", "impl ClientIdMaps")
    ent_s = _item(src, r"pub struct ClientIdMapEntry\s*\{", "struct ClientIdMapEntry")
    ent_i = _item(src, r"impl\s+ClientIdMapEntry\s*\{", "impl ClientIdMapEntry")
    prune = re.sub(r"^fn\s+prune_udp_clients", "pub fn prune_udp_clients", prune)
    maps_i = re.sub(r"(\n\s*)async fn send_datagram_reply", r"\1pub async fn send_datagram_reply", maps_i)
    maps_i = re.sub(r"(\n\s*)fn new\(", r"\1pub fn new(", maps_i)
    return ("// GENERATED by /verif/lib/vdriver.py from /repo/penguin/src/client/mod.rs and config.rs - the text between the\n"
            "// markers is the repository's own; only visibility keywords were added and the struct HandlerResources\n"
            "// was reduced to the one field these methods use.\n"
            f"pub const UDP_PRUNE_TIMEOUT_SECS: u64 = {cm.group(1)};\n"
            "pub struct HandlerResources { udp_client_map: Arc<Mutex<ClientIdMaps>> }\n"
            "impl HandlerResources {\n"
            "    pub fn verif_new() -> Self { Self { udp_client_map: Arc::new(Mutex::new(ClientIdMaps::new())) } }\n"
            "    pub fn verif_map(&self) -> &Mutex<ClientIdMaps> { &self.udp_client_map }\n"
            "// ---- extracted: add_udp_client\n    " + add + "\n// ---- extracted: prune_udp_clients\n    " + prune + "\n}\n"
            "// ---- extracted: ClientIdMaps\n" + maps_s + "\n" + maps_i + "\n"
            "// ---- extracted: ClientIdMapEntry\n" + ent_s + "\n" + ent_i + "\n")


def extract_backoff_callsite():
    f = REPO / "penguin" / "src" / "client" / "mod.rs"
    if not f.exists():
        return None
    m = re.search(r"Backoff::new\(\s*Duration::from_millis\((\d[\d_]*)\)\s*,\s*Duration::from_millis\(\s*args\.max_retry_interval\s*\)\s*,\s*(\d+)\s*,\s*args\.max_retry_count\s*,?\s*\)", f.read_text())
    if not m:
        return None
    return int(m.group(1).replace("_", "")), int(m.group(2))


def cargo_env():
    e = dict(os.environ)
    e["CARGO_NET_OFFLINE"] = "true"
    e.pop("RUSTFLAGS", None)
    e.pop("CARGO_ENCODED_RUSTFLAGS", None)
    e.pop("RUSTUP_TOOLCHAIN", None)
    e["CARGO_TERM_COLOR"] = "never"
    return e


def codegen(cwd: Path, target: Path, names: list[str], pkg_args: list[str], logf: Path, seed: int):
    """`cargo kani --only-codegen` for the selected harnesses; returns name -> metadata."""
    cmd = ["cargo", "kani", "--only-codegen", "--target-dir", str(target), "--no-assertion-reach-checks"] + pkg_args
    for n in names:
        cmd += ["--harness", n]
    env = cargo_env()
    env["VERIF_SEED"] = str(seed)
    t0 = time.time()
    with open(logf, "w") as lf:
        p = subprocess.run(cmd, cwd=cwd, env=env, stdout=lf, stderr=subprocess.STDOUT)
    dt = time.time() - t0
    if p.returncode != 0:
        return None, dt
    metas = {}
    for mf in target.rglob("*.kani-metadata.json"):
        try:
            m = json.loads(mf.read_text())
        except Exception:
            continue
        for h in m.get("proof_harnesses", []):
            short = h["pretty_name"].split("::")[-1]
            # keep the newest artefact if a name appears twice
            if short not in metas or Path(h["goto_file"]).stat().st_mtime > Path(metas[short]["goto_file"]).stat().st_mtime:
                if Path(h["goto_file"]).exists():
                    metas[short] = h
    return metas, dt


# --------------------------------------------------------------------------------------------
# CBMC pipeline for one harness
# --------------------------------------------------------------------------------------------
_children_lock = threading.Lock()
_children: dict[int, subprocess.Popen] = {}


def _limits(mem_gb):
    def f():
        os.setsid()
        b = int(mem_gb * (1 << 30))
        resource.setrlimit(resource.RLIMIT_AS, (b, b))
    return f


def run_proc(cmd, timeout, mem_gb, stdout_path=None):
    """Run a child under RLIMIT_AS and a wall-clock timeout. Returns (rc, seconds, maxrss_kb, timed_out)."""
    t0 = time.time()
    out = open(stdout_path, "wb") if stdout_path else subprocess.DEVNULL
    p = subprocess.Popen(cmd, stdout=out, stderr=subprocess.DEVNULL, preexec_fn=_limits(mem_gb))
    with _children_lock:
        _children[p.pid] = p
    timed_out = False
    killer = None
    if timeout:
        def kill():
            nonlocal timed_out
            timed_out = True
            try:
                os.killpg(p.pid, signal.SIGKILL)
            except ProcessLookupError:
                pass
        killer = threading.Timer(timeout, kill)
        killer.start()
    try:
        _, status, ru = os.wait4(p.pid, 0)
    finally:
        if killer:
            killer.cancel()
        with _children_lock:
            _children.pop(p.pid, None)
        if stdout_path:
            out.close()
    rc = os.waitstatus_to_exitcode(status)
    p.returncode = rc
    return rc, time.time() - t0, ru.ru_maxrss, timed_out


def mem_watchdog(stop: threading.Event, floor_gb: float = 5.0):
    """No swap on this machine: if available memory gets low, kill the biggest solver."""
    while not stop.wait(2.0):
        try:
            avail = 0
            for line in open("/proc/meminfo"):
                if line.startswith("MemAvailable:"):
                    avail = int(line.split()[1]) / (1 << 20)
            if avail >= floor_gb:
                continue
            best, best_rss = None, 0
            with _children_lock:
                pids = list(_children)
            for pid in pids:
                try:
                    rss = int(open(f"/proc/{pid}/statm").read().split()[1]) * 4096
                except Exception:
                    continue
                if rss > best_rss:
                    best, best_rss = pid, rss
            if best:
                log(f"[watchdog] MemAvailable {avail:.1f} GB: killing pid {best} (rss {best_rss >> 20} MB)")
                try:
                    os.killpg(best, signal.SIGKILL)
                except ProcessLookupError:
                    pass
        except Exception as e:  # never let the watchdog die silently
            log(f"[watchdog] {e}")


def parse_cbmc_json(path: Path):
    """Return dict(props=[...], stats={...}, status=str|None, oom=bool)."""
    raw = path.read_text(errors="replace") if path.exists() else ""
    res = dict(props=[], stats={}, status=None, oom=False, parse_ok=False)
    try:
        j = json.loads(raw)
        res["parse_ok"] = True
    except Exception:
        j = []
        # truncated output: salvage messages
        for m in re.finditer(r'"messageText":\s*"((?:[^"\\]|\\.)*)"', raw):
            j.append({"messageText": m.group(1)})
    st = res["stats"]
    solver_s = 0.0
    for e in j:
        if not isinstance(e, dict):
            continue
        if "messageText" in e:
            t = e["messageText"]
            if "out of memory" in t.lower() or "bad_alloc" in t:
                res["oom"] = True
            m = re.search(r"size of program expression: (\d+) steps", t)
            if m:
                st["ssa_steps"] = int(m.group(1))
            m = re.search(r"Generated (\d+) VCC\(s\), (\d+) remaining", t)
            if m:
                st["vccs"] = int(m.group(1))
                st["vccs_remaining"] = int(m.group(2))
            m = re.search(r"(\d+) variables, (\d+) clauses", t)
            if m:
                st["sat_vars"] = int(m.group(1))
                st["sat_clauses"] = int(m.group(2))
            m = re.search(r"Runtime Symex: ([\d.e+-]+)s", t)
            if m:
                st["symex_s"] = float(m.group(1))
            m = re.search(r"Runtime decision procedure: ([\d.e+-]+)s", t)
            if m:
                solver_s += float(m.group(1))
        if "result" in e:
            for p in e["result"]:
                sl = p.get("sourceLocation", {}) or {}
                desc = p.get("description", "")
                desc = re.sub(r"^\[KANI_CHECK_ID_[^\]]*\]\s*", "", desc)
                vals = []
                # the values chosen for kani::any(): same rule as Kani's concrete playback
                # (assignments to the return value inside kani::any_raw_*)
                for s in p.get("trace", []) or []:
                    if s.get("stepType") != "assignment":
                        continue
                    if not (s.get("sourceLocation") or {}).get("function", "").startswith("kani::any_raw_"):
                        continue
                    if not str(s.get("lhs", "")).startswith("goto_symex$$return_value"):
                        continue
                    v = s.get("value", {})
                    if v.get("binary") is not None and v.get("width"):
                        vals.append(dict(data=v.get("data"), width=v.get("width"), binary=v.get("binary")))
                res["props"].append(dict(
                    id=p.get("property"), cls=sl.get("propertyClass") or (p.get("property", "").rsplit(".", 2)[-2] if p.get("property", "").count(".") >= 2 else ""),
                    status=p.get("status"), desc=desc.strip().strip('"'), file=sl.get("file"), line=sl.get("line"),
                    func=sl.get("function"), trace_vals=vals[:4096]))
        if "cProverStatus" in e:
            res["status"] = e["cProverStatus"]
    st["solver_s"] = round(solver_s, 3)
    return res


def _flatten_value_bytes(v):
    """Bytes of an array-valued trace value (CBMC json: {"name": "array", "elements": [{"value": ..}]})."""
    if not isinstance(v, dict):
        return None
    if v.get("binary") is not None and v.get("width"):
        w = int(v["width"])
        return int(v["binary"], 2).to_bytes(max(1, (w + 7) // 8), "little")
    if v.get("name") == "array" and isinstance(v.get("elements"), list):
        out = b""
        for el in sorted(v["elements"], key=lambda e: int(e.get("index", 0))):
            b = _flatten_value_bytes(el.get("value"))
            if b is None:
                return None
            out += b
        return out
    return None


WAKER_SITES = {
    "core::task::Waker::wake": "wake",
    "core::task::Waker::wake_by_ref": "wake_by_ref",
    "<core::task::Waker as core::clone::Clone>::clone": "clone",
    "<core::task::Waker as core::ops::Drop>::drop": "drop",
    "std::task::Waker::wake": "wake",
    "std::task::Waker::wake_by_ref": "wake_by_ref",
    "<std::task::Waker as std::clone::Clone>::clone": "clone",
    "<std::task::Waker as std::ops::Drop>::drop": "drop",
}


def restrict_waker_calls(out: Path, wd: Path) -> int:
    """`Waker::{wake, wake_by_ref, clone, drop}` call through the fn pointers of a
    RawWakerVTable.  CBMC resolves an indirect call by signature, and `fn(*const ())` matches
    every unary drop glue in the program (io::Error's included): each waker operation then
    explores all of them.  The only wakers in these single-threaded harnesses are the
    harness's own (`*_raw::{clone,wake,drop,noop}`); restrict the four call sites to them.
    goto-instrument adds an assertion that the pointer is one of the listed targets, so a waker
    from anywhere else is reported, not ignored."""
    try:
        lst = subprocess.run(["goto-instrument", "--list-goto-functions", str(out)], capture_output=True, text=True, timeout=120).stdout
    except Exception:
        return 0
    sites, targets = {}, []
    for m in re.finditer(r"^(.+?) /\* (\S+?)(?:, body not available)? \*/$", lst, re.M):
        pretty, mangled = m.group(1).strip(), m.group(2)
        if pretty in WAKER_SITES:
            sites[mangled] = WAKER_SITES[pretty]
        elif re.search(r"_raw::(clone|wake|drop|noop)$", pretty):
            targets.append((pretty, mangled))
    if not sites or not targets:
        return 0
    restr = {}
    for mangled, kind in sites.items():
        if kind == "clone":
            t = [m for p, m in targets if p.endswith("::clone")]
        else:
            t = [m for p, m in targets if not p.endswith("::clone")]
        if t:
            restr[f"{mangled}.function_pointer_call.1"] = sorted(set(t))
    if not restr:
        return 0
    rf = wd / "waker-restrictions.json"
    rf.write_text(json.dumps(restr))
    rc, _, _, _ = run_proc(["goto-instrument", "--function-pointer-restrictions-file", str(rf), str(out), str(out)], 300, 8)
    return len(restr) if rc == 0 else 0


class HeavyBudget:
    """Harnesses that declare more than the default memory limit share a budget, so that the sum of
    their limits stays below the machine's memory (no swap); ordinary instances are not counted
    (their real use is far below their limit)."""

    def __init__(self, total_gb):
        self.total = total_gb
        self.used = 0
        self.cv = threading.Condition()

    def acquire(self, gb):
        gb = min(gb, self.total)
        with self.cv:
            while self.used + gb > self.total:
                self.cv.wait()
            self.used += gb
        return gb

    def release(self, gb):
        with self.cv:
            self.used -= gb
            self.cv.notify_all()


HEAVY = HeavyBudget(int(os.environ.get("VERIF_HEAVY_GB", "40")))


def run_harness(meta, spec: H, profile: str, workdir: Path, tier: str, noslice: bool = False, only_props=()):
    need = spec.mem_gb or 0
    if noslice:  # the unsliced formula of the full-trace re-run is larger
        need = max(need, 24)
    if need <= 8:  # only instances DECLARED heavy are budgeted
        return _run_harness(meta, spec, profile, workdir, tier, noslice, only_props)
    got = HEAVY.acquire(need)
    try:
        return _run_harness(meta, spec, profile, workdir, tier, noslice, only_props)
    finally:
        HEAVY.release(got)


def _run_harness(meta, spec: H, profile: str, workdir: Path, tier: str, noslice: bool = False, only_props=()):
    """goto-cc / goto-instrument / cbmc for one harness, as Kani 0.68 does."""
    name = meta["pretty_name"].split("::")[-1]
    wd = workdir / (f"{name}.{profile}" + (".full" if noslice else ""))
    wd.mkdir(parents=True, exist_ok=True)
    out = wd / "h.out"
    mem = spec.mem_gb or (8 if tier == "quick" else 20)
    tmo = spec.timeout or (600 if tier == "quick" else 2400)
    if os.environ.get("VERIF_TIMEOUT"):
        tmo = int(os.environ["VERIF_TIMEOUT"])
    if noslice:
        mem = max(mem, 24)
        tmo = max(tmo, 1200)
    r = dict(name=name, pretty=meta["pretty_name"], profile=profile, verdict=None, wall_s=0.0, note=spec.note)
    t0 = time.time()
    steps = [
        ["goto-cc", meta["goto_file"], str(KANI_LIB_C), "-o", str(out)],
        ["goto-cc", str(out), "--function", meta["mangled_name"], "-o", str(out)],
        ["goto-instrument", "--add-library", "--no-malloc-may-fail", str(out), str(out)],
        ["goto-instrument", "--generate-function-body-options", "assert-false-assume-false",
         "--generate-function-body", ".*", "--drop-unused-functions", str(out), str(out)],
        ["goto-instrument", "--ensure-one-backedge-per-target", str(out), str(out)],
    ]
    for idx, c in enumerate(steps):
        rc, _, _, to = run_proc(c, 300, mem)
        if rc != 0:
            r.update(verdict="ERROR", reason=f"{c[0]} failed rc={rc}", wall_s=time.time() - t0)
            return r
        if idx == 1:
            r["waker_sites_restricted"] = restrict_waker_calls(out, wd)
    unwind = meta["attributes"].get("unwind_value")
    cmd = ["cbmc"] + CBMC_FLAGS[:-1]
    if unwind is not None:
        cmd += ["--unwind", str(unwind)]
    if spec.unwindset:
        try:
            sl = subprocess.run(["goto-instrument", "--show-loops", str(out)], capture_output=True, text=True, timeout=120).stdout
        except Exception:
            sl = ""
        sets = []
        for m in re.finditer(r"^Loop (\S+):\n\s+file .*? function (.*)$", sl, re.M):
            for rx, bound in spec.unwindset:
                if rx.search(m.group(2)):
                    sets.append(f"{m.group(1)}:{bound}")
                    break
        if sets:
            cmd += ["--unwindset", ",".join(sets)]
        r["unwindset"] = len(sets)
    # Heap objects are byte arrays for CBMC; with the default limit (64) it stops propagating
    # constants through any allocation larger than 64 bytes, so every enum tag or flag read
    # back from an Arc / Vec / coroutine is symbolic and all match arms are explored.
    fs = os.environ.get("VERIF_FIELD_SENS", "1024")
    cmd += ["--max-field-sensitivity-array-size", fs]
    # `--slice-formula` drops the nondet choices outside the cone of influence from the
    # counterexample trace; the replay run (noslice) keeps them all
    # the re-run asks only for the failing properties (one solver call each)
    for pid_ in only_props:
        cmd += ["--property", pid_]
    cmd += spec.extra_cbmc + ([] if noslice else ["--slice-formula"]) + [str(out), "--verbosity", "8", "--json-ui"]
    jpath = wd / "cbmc.json"
    rc, secs, rss, to = run_proc(cmd, tmo, mem, stdout_path=jpath)
    parsed = parse_cbmc_json(jpath)
    r["cbmc_cmd"] = " ".join(cmd[:-4] + ["<goto>", "--json-ui"])
    r["_rerun"] = (meta, spec, profile)
    r["stats"] = parsed["stats"]
    r["stats"]["peak_rss_mb"] = rss // 1024
    r["stats"]["cbmc_wall_s"] = round(secs, 2)
    r["wall_s"] = round(time.time() - t0, 2)
    r["props"] = parsed["props"]
    if to:
        r.update(verdict="TIMEOUT", reason=f"cbmc exceeded {tmo}s")
    elif parsed["oom"] or rc in (-9, -6, 6, 134, 137) or (not parsed["parse_ok"]):
        r.update(verdict="OOM", reason=f"cbmc rc={rc} (memory limit {mem} GB) parse_ok={parsed['parse_ok']}")
    elif rc not in (0, 10):
        r.update(verdict="ERROR", reason=f"cbmc rc={rc}")
    try:
        if not os.environ.get("VERIF_KEEP_GOTO"):
            out.unlink()
    except OSError:
        pass
    if not os.environ.get("VERIF_KEEP_JSON"):
        try:
            jpath.unlink()
        except OSError:
            pass
    return r


# --------------------------------------------------------------------------------------------
# Classification
# --------------------------------------------------------------------------------------------
def classify(r, spec: H):
    """Fill r with: violations, allowed, covers, inconclusive reasons."""
    viol, allowed, ub, covers = [], [], [], []
    inconc = []
    n_checks = n_ok = 0
    for p in r.get("props", []):
        cls = p["cls"] or ""
        if cls in CLASS_IGNORE:
            continue
        if cls == "cover":
            covers.append(dict(desc=p["desc"], satisfied=(p["status"] == "FAILURE"),
                               optional=p["desc"].startswith("?") or any(x.search(p["desc"]) for x in spec.optional_covers)))
            continue
        n_checks += 1
        if p["status"] == "SUCCESS":
            n_ok += 1
            continue
        if p["status"] != "FAILURE":
            inconc.append(f"check {p['id']} status {p['status']}")
            continue
        if cls in CLASS_UNWIND:
            inconc.append(f"unwinding bound too small at {p['func']} ({p['file']}:{p['line']})")
            continue
        if cls in CLASS_UNSUPPORTED:
            inconc.append(f"unsupported construct reachable: {p['desc'][:120]}")
            continue
        item = dict(id=p["id"], cls=cls, desc=p["desc"], func=p["func"], file=p["file"], line=p["line"],
                    trace_vals=p.get("trace_vals", []))
        if p["desc"].startswith("P:"):
            viol.append(item)
            continue
        if p["desc"].startswith("BOUND:"):
            inconc.append(p["desc"])
            continue
        key = f"{p['desc']} @ {p['func']}"
        if any(a.search(key) for a in spec.allow):
            allowed.append(item)
            continue
        # `allow_panics`: any explicit panic of the code under test is an accepted outcome
        # (out-of-range argument, fault injection).  Kani cannot show run-time formatted panic
        # messages, so this is decided by class: an `assertion`-class failure that is not one
        # of ours ("P:") and not an arithmetic-overflow check (which does NOT panic in a
        # production build, it wraps silently).
        if spec.allow_panics and cls == "assertion" and not OVERFLOW_RE.search(p["desc"]):
            allowed.append(item)
            continue
        if cls in CLASS_UB:
            ub.append(item)
            continue
        item["unexpected_panic"] = True
        viol.append(item)
    r["n_checks"], r["n_ok"] = n_checks, n_ok
    r["violations"], r["allowed"], r["ub"], r["covers"] = viol, allowed, ub, covers
    if r["verdict"] in ("TIMEOUT", "OOM", "ERROR"):
        return r
    if not r.get("props"):
        r["verdict"], r["reason"] = "ERROR", "no results from cbmc"
        return r
    if inconc:
        r["verdict"], r["reason"] = "INCONCLUSIVE", "; ".join(sorted(set(inconc))[:4])
        return r
    missing = [c["desc"] for c in covers if not c["satisfied"] and not c["optional"]]
    if viol:
        r["verdict"] = "FAILED"
    elif ub:
        r["verdict"], r["reason"] = "UB-SUSPECT", "; ".join(f"{u['desc']} @ {u['func']}" for u in ub[:3])
    elif missing:
        r["verdict"], r["reason"] = "VACUOUS", "cover witness not satisfiable: " + "; ".join(missing[:3])
    else:
        r["verdict"] = "OK"
    return r


# --------------------------------------------------------------------------------------------
# Known findings
# --------------------------------------------------------------------------------------------
def load_known():
    p = VERIF / "known_findings.json"
    if not p.exists() or os.environ.get("VERIF_IGNORE_KNOWN"):
        return []
    return json.loads(p.read_text()).get("findings", [])


def match_known(known, prop_id, harness, desc):
    for k in known:
        if k.get("status") != "known" or k.get("property") != prop_id:
            continue
        if re.search(k["harness"], harness) and k["assertion"] in desc:
            return k
    return None


# --------------------------------------------------------------------------------------------
# Native replay of a counterexample (concrete playback)
# --------------------------------------------------------------------------------------------
PLAYBACK_RE = re.compile(r"```\n(/// Test generated for harness.*?)```", re.S)


def concrete_playback(prop, kind, profile, harness, pretty, sc: Scratch, builds, seed, viols):
    """Ask Kani for the concrete test of a failing harness, then run it natively against a
    workspace that uses the REAL dependencies wherever a real counterpart exists.
    Returns dict(reproduced=bool|None, detail=str, test=str)."""
    b = builds[(kind, profile)]
    env = cargo_env()
    env["VERIF_SEED"] = str(seed)
    tests = []
    for i, v in enumerate(viols[:3]):
        tv = v.get("trace_vals") or []
        rows = []
        for x in tv:
            if x.get("bytes_hex") is not None:
                by = bytes.fromhex(x["bytes_hex"])
            else:
                w = int(x["width"])
                nbytes = max(1, (w + 7) // 8)
                val = int(x["binary"], 2)
                by = val.to_bytes(nbytes, "little")
            rows.append("        std::vec![" + ", ".join(str(c) for c in by) + "],")
        tname = f"kani_concrete_playback_{harness}_{i}"
        tests.append(f"/// Test generated for harness `{pretty}` from the CBMC trace\n/// Check for `assertion`: {v['desc']!r}\n#[test]\nfn {tname}() {{\n    let concrete_vals: std::vec::Vec<std::vec::Vec<u8>> = std::vec![\n" + "\n".join(rows) + f"\n    ];\n    kani::concrete_playback_run(concrete_vals, {harness});\n}}\n")
    if not tests:
        return dict(reproduced=None, detail="no counterexample trace available", test="")
    # native workspaces: real crates (only shims without a real counterpart stay); one per
    # native mode: `dev` (debug assertions on) and `release` (optimised, assertions off)
    results = []
    keep_shims = b.get("native_shims", [])
    nat = sc.root / f"native-{kind}-{harness}"
    for mode in ("dev", "release"):
        root = nat / mode
        if kind == "ext":
            repo_copy = root / "repo"
            copy_repo(repo_copy, mode, [], VERIF / "shims", False, VERIF / "harness")
            make_ext(root / "ext", repo_copy, mode, keep_shims, VERIF / "shims", VERIF / "harness", b.get("ext_dir", "ext"))
            ncwd = root / "ext"
            modfile = ncwd / "src" / (b["module_of"](harness) + ".rs")
            npkg = []
        else:
            repo_copy = root / "repo"
            hcopy = root / "harness"
            shutil.copytree(VERIF / "harness", hcopy)
            copy_repo(repo_copy, mode, keep_shims, VERIF / "shims", True, hcopy, bool(b.get("atomics")))
            neutralise_unit_tests(repo_copy)
            ncwd = repo_copy
            modfile = hcopy / "mux" / (b["module_of"](harness))
            npkg = ["-p", "penguin-mux", "--no-default-features", "--features", MUX_FEATURES]
        src = modfile.read_text()
        names = []
        add = ""
        for t in tests:
            m = re.search(r"fn (kani_concrete_playback_\w+)", t)
            if m:
                names.append(m.group(1))
                add += "\n" + t + "\n"
        modfile.write_text(src + add)
        for tname in names:
            cmdp = ["cargo", "kani", "playback", "-Z", "concrete-playback"] + npkg + ["--", tname]
            plog = sc.root / f"native-{harness}-{mode}-{tname[-6:]}.log"
            with open(plog, "w") as f:
                try:
                    subprocess.run(cmdp, cwd=ncwd, env=env, stdout=f, stderr=subprocess.STDOUT, timeout=1800)
                except subprocess.TimeoutExpired:
                    pass
            out = plog.read_text(errors="replace")
            ran = re.search(r"test result: (ok|FAILED)\. (\d+) passed; (\d+) failed", out)
            panicked = re.findall(r"panicked at [^\n]*\n([^\n]*)", out)
            if ran and ran.group(1) == "FAILED":
                msg = panicked[0].strip() if panicked else "test failed"
                if "det vals" in msg or "concrete_playback" in msg and "Expected" in msg:
                    # the playback machinery itself complained (value sequence mismatch)
                    results.append(dict(test=tname, mode=mode, failed=None, message="playback value mismatch: " + msg))
                else:
                    results.append(dict(test=tname, mode=mode, failed=True, message=msg))
            elif ran and int(ran.group(2)) >= 1:
                results.append(dict(test=tname, mode=mode, failed=False, message="test passed natively"))
            else:
                results.append(dict(test=tname, mode=mode, failed=None, message="native build/run error: " + out[-400:]))
    reproduced = None
    shutil.rmtree(nat, ignore_errors=True)
    if any(r["failed"] for r in results):
        reproduced = True
    elif results and all(r["failed"] is False for r in results):
        reproduced = False
    return dict(reproduced=reproduced, detail=results, test=tests[0])


# --------------------------------------------------------------------------------------------
# Main per-property run
# --------------------------------------------------------------------------------------------
def run_property(pid: str, tier: str, jobs: int, only: str | None, keep: bool, replay: bool, seed: int):
    sys.path.insert(0, str(VERIF / "lib"))
    import props  # noqa
    spec = props.PROPS[pid]
    t_start = time.time()
    known = load_known()
    # tier "off": written, but beyond reach of the engine (kept for --harness experiments only;
    # listed in the evidence under outside_claim)
    hs = [h for h in spec["harnesses"] if ((tier == "thorough" and h.tier != "off") or h.tier == "quick" or (only and h.tier == "off"))]
    if only:
        hs = [h for h in hs if re.search(only, h.name)]
    kind = spec["kind"]
    shims = spec.get("shims", SHIMS_ALL if kind == "mux" else ["bytes", "tokio"])
    jobs_by_profile: dict[str, list[H]] = {}
    for h in hs:
        for pr in (h.profiles if tier == "thorough" else h.profiles[:1]):
            jobs_by_profile.setdefault(pr, []).append(h)

    results = []
    evidence_path = EVID / f"{pid}.json"
    evidence_path.parent.mkdir(exist_ok=True)
    build_info = {}
    exit_code = 0
    lines = []
    with Scratch(pid, keep) as sc:
        stop = threading.Event()
        wd_thread = threading.Thread(target=mem_watchdog, args=(stop,), daemon=True)
        wd_thread.start()
        builds = {}
        todo = []
        build_failed = None
        for profile, hl in jobs_by_profile.items():
            repo_copy = sc.root / f"repo-{profile}"
            copy_repo(repo_copy, profile, shims, VERIF / "shims", kind == "mux", VERIF / "harness", bool(spec.get("atomics")))
            names = sorted({h.name for h in hl})
            if kind == "ext":
                ext = sc.root / f"ext-{profile}"
                make_ext(ext, repo_copy, profile, shims, VERIF / "shims", VERIF / "harness", spec.get("ext_dir", "ext"))
                cwd, pkg_args = ext, []
            else:
                cwd, pkg_args = repo_copy, ["-p", "penguin-mux", "--no-default-features", "--features", MUX_FEATURES]
            target = sc.root / f"target-{kind}-{profile}"
            logf = sc.root / f"build-{kind}-{profile}.log"
            log(f"[{pid}] codegen {kind}/{profile}: {len(names)} harnesses …")
            metas, dt = codegen(cwd, target, names, pkg_args, logf, seed)
            build_info[f"{kind}/{profile}"] = dict(seconds=round(dt, 1), harnesses=len(names))
            if metas is None:
                tail = logf.read_text(errors="replace")
                errs = re.findall(r"error(?:\[E\d+\])?: [^\n]*", tail)
                build_failed = f"{kind}/{profile}: " + ("; ".join(errs[:3]) if errs else tail[-600:])
                if keep:
                    log(tail[-3000:])
                break
            builds[(kind, profile)] = dict(cwd=cwd, pkg_args=pkg_args, ext_dir=spec.get("ext_dir", "ext"), atomics=bool(spec.get("atomics")), module_of=spec.get("module_of", lambda h: spec.get("module", "")),
                                           native_shims=spec.get("native_shims", ["tokio", "tracing", "tracing-attributes", "parking_lot"] if kind == "mux" else []))
            for h in hl:
                if h.name not in metas:
                    results.append(dict(name=h.name, profile=profile, verdict="ERROR", reason="harness not found in kani metadata", wall_s=0))
                    continue
                todo.append((metas[h.name], h, profile))
        if build_failed:
            stop.set()
            lines.append(f"INCONCLUSIVE property={pid} reason=harness build failed against the current tree: {build_failed}")
            write_evidence(pid, tier, seed, spec, [], build_info, time.time() - t_start, 0, note=lines[-1])
            print("\n".join(lines))
            return 2
        log(f"[{pid}] running {len(todo)} harness instances on {jobs} workers")
        work = sc.root / "work"
        work.mkdir()
        # longest first (rough heuristic: thorough-only instances tend to be bigger)
        with cf.ThreadPoolExecutor(max_workers=jobs) as ex:
            futs = {ex.submit(run_harness, m, h, pr, work, tier): (m, h, pr) for (m, h, pr) in todo}
            for f in cf.as_completed(futs):
                m, h, pr = futs[f]
                try:
                    r = f.result()
                except Exception as e:  # noqa
                    r = dict(name=h.name, profile=pr, verdict="ERROR", reason=f"driver exception {e!r}", wall_s=0)
                classify(r, h)
                results.append(r)
                st = r.get("stats", {})
                log(f"  {r['verdict']:<12} {r['name']}.{pr}  {r['wall_s']}s  steps={st.get('ssa_steps')} rss={st.get('peak_rss_mb')}MB"
                    + (f"  {r.get('reason','')}" if r['verdict'] not in ('OK', 'FAILED') else "")
                    + ("  " + "; ".join(v['desc'][:90] for v in r.get('violations', [])[:2]) if r['verdict'] == 'FAILED' else ""))
        stop.set()

        # ---- verdicts ------------------------------------------------------------------------
        n_viol = 0
        inconclusive = [r for r in results if r["verdict"] not in ("OK", "FAILED")]
        failed = [r for r in results if r["verdict"] == "FAILED"]
        replay_dir = EVID / "replay"
        for r in failed:
            new_viol = []
            for v in r["violations"]:
                k = match_known(known, pid, r["name"], v["desc"])
                if k:
                    lines.append(f"KNOWN-FINDING: property={pid} harness={r['name']} {k.get('what', v['desc'])}")
                    v["known"] = True
                else:
                    new_viol.append(v)
            if not new_viol:
                r["verdict"] = "KNOWN"
                continue
            rp = None
            if replay:
                log(f"[{pid}] replaying {r['name']} natively …")
                # full counterexample (no formula slicing) for the playback values
                try:
                    m_, s_, p_ = r["_rerun"]
                    full = run_harness(m_, s_, p_, sc.root / "work", tier, noslice=True, only_props=[v["id"] for v in new_viol[:3] if v.get("id")])
                    classify(full, s_)
                    fv = {v["desc"]: v for v in full.get("violations", [])}
                    for v in new_viol:
                        if v["desc"] in fv and fv[v["desc"]].get("trace_vals"):
                            v["trace_vals"] = fv[v["desc"]]["trace_vals"]
                except Exception as e:  # noqa
                    log(f"[{pid}] full-trace re-run failed: {e!r}")
                try:
                    rp = concrete_playback(pid, kind, r["profile"], r["name"], r.get("pretty", r["name"]), sc, builds, seed, new_viol)
                except Exception as e:  # noqa
                    rp = dict(reproduced=None, detail=f"replay machinery error {e!r}", test="")
                r["replay"] = dict(reproduced=rp["reproduced"], detail=rp["detail"])
            if replay and rp and rp["reproduced"] is False:
                r["verdict"] = "NOT-REPRODUCED"
                inconclusive.append(r)
                continue
            if replay and rp and rp["reproduced"] is None:
                r["verdict"] = "REPLAY-ERROR"
                r["reason"] = str(rp["detail"])[:300]
                inconclusive.append(r)
                continue
            replay_dir.mkdir(parents=True, exist_ok=True)
            rfile = replay_dir / f"{pid}-{r['name']}.{r['profile']}.json"
            rfile.write_text(json.dumps(dict(
                property=pid, harness=r["name"], profile=r["profile"],
                failing=[dict(assertion=v["desc"], at=f"{v['file']}:{v['line']}", function=v["func"],
                              unexpected_panic=v.get("unexpected_panic", False), symbolic_inputs=[x.get("data") for x in v["trace_vals"]][:256]) for v in new_viol],
                native_replay=(rp or {}).get("detail"), playback_test=(rp or {}).get("test"),
                repo_tree_sha=sha256_tree(REPO, REPO_CRATES), how_to_replay=f"./check {pid} --harness '^{r['name']}$' --tier {tier}"), indent=1))
            n_viol += 1
            lines.append(f"VIOLATION property={pid} replay={rfile}")
            for v in new_viol[:3]:
                lines.append(f"  harness={r['name']} profile={r['profile']} {'unexpected panic: ' if v.get('unexpected_panic') else ''}{v['desc']} @ {v['func']} ({v['file']}:{v['line']})")
        # property-level vacuity guard: some cover witnesses must be satisfied in at least one
        # harness of the run (e.g. C12: the other party really ran inside the writer's poll)
        if not only:
            for rx in spec.get("require_covers_any", []):
                if not any(c["satisfied"] and re.search(rx, c["desc"]) for r in results for c in r.get("covers", [])):
                    fake = dict(name="(property)", profile="-", verdict="VACUOUS", reason=f"no harness satisfied the witness /{rx}/")
                    inconclusive.append(fake)
        for r in inconclusive:
            lines.append(f"INCONCLUSIVE property={pid} harness={r['name']}.{r['profile']} {r['verdict']}: {r.get('reason', '')}")
        if n_viol:
            exit_code = 1
        elif inconclusive:
            exit_code = 2
        wall = time.time() - t_start
        write_evidence(pid, tier, seed, spec, results, build_info, wall, n_viol)
    ok = sum(1 for r in results if r["verdict"] == "OK")
    lines.append(f"{pid} [{tier}] harness instances: {len(results)} ok={ok} known={sum(1 for r in results if r['verdict']=='KNOWN')} "
                 f"violations={n_viol} inconclusive={len(inconclusive)} wall={time.time()-t_start:.0f}s -> exit {exit_code}")
    print("\n".join(lines), flush=True)
    return exit_code


def write_evidence(pid, tier, seed, spec, results, build_info, wall, n_viol, note=None):
    insts = []
    funcs = set()
    tot_checks = tot_ok = covers_total = covers_sat = 0
    solver_s = symex_s = 0.0
    for r in results:
        st = r.get("stats", {})
        tot_checks += r.get("n_checks", 0)
        tot_ok += r.get("n_ok", 0)
        covers_total += len(r.get("covers", []))
        covers_sat += sum(1 for c in r.get("covers", []) if c["satisfied"])
        solver_s += st.get("solver_s", 0) or 0
        symex_s += st.get("symex_s", 0) or 0
        for p in r.get("props", []):
            f = p.get("file") or ""
            if "/repo-" in f or f.startswith("../repo") or "/repo/" in f:
                funcs.add(p.get("func"))
        insts.append(dict(harness=r["name"], profile=r["profile"], verdict=r["verdict"], reason=r.get("reason"),
                          checks=r.get("n_checks"), checks_ok=r.get("n_ok"),
                          allowed_panics=sorted({a["desc"][:80] for a in r.get("allowed", [])})[:6],
                          covers=[dict(desc=c["desc"], satisfied=c["satisfied"]) for c in r.get("covers", [])],
                          ssa_steps=st.get("ssa_steps"), vccs=st.get("vccs"), sat_vars=st.get("sat_vars"),
                          sat_clauses=st.get("sat_clauses"), symex_s=st.get("symex_s"), solver_s=st.get("solver_s"),
                          peak_rss_mb=st.get("peak_rss_mb"), wall_s=r.get("wall_s"), note=r.get("note"),
                          violations=[v["desc"] for v in r.get("violations", [])], replay=r.get("replay")))
    nontrivial = sum(1 for r in results if r["verdict"] in ("OK", "KNOWN", "FAILED") and r.get("covers") and
                     all(c["satisfied"] or c["optional"] for c in r["covers"]))
    shim_hashes = {}
    for s in spec.get("shims", SHIMS_ALL if spec["kind"] == "mux" else ["bytes", "tokio"]):
        d = VERIF / "shims" / s
        if d.exists():
            shim_hashes[s] = sha256_tree(VERIF / "shims", [s])[:16]
    ev = dict(
        property_id=pid, tier=tier, seed=seed, level="model_checking",
        coverage=dict(
            evaluations=len(results), distinct_nontrivial=nontrivial,
            rule=("one evaluation = one Kani harness instance (harness x build profile) decided by CBMC/cadical over ALL values of its "
                  "symbolic inputs within the stated bounds; an instance is counted non-trivial only if every kani::cover! witness in it "
                  "was SATISFIED (so the assertions were reached with the interesting outcomes possible); instance names are distinct by construction"),
            samples=[dict(harness=i["harness"], profile=i["profile"], verdict=i["verdict"], checks=i["checks"], covers=i["covers"][:3], note=i["note"]) for i in insts[:12]],
            obligations=tot_checks, discharged=tot_ok,
            covers_total=covers_total, covers_satisfied=covers_sat,
            exhaustive=False,
            checker_cmd="cargo kani --only-codegen (kani 0.68.0) ; goto-cc ; goto-instrument --add-library/--generate-function-body/--drop-unused-functions ; cbmc " + " ".join(CBMC_FLAGS) + " --max-field-sensitivity-array-size 1024 --unwind <per harness> [--unwindset ...] (CBMC 6.11.0, cadical)",
            trusted_base=spec.get("trusted", []) + ["Kani 0.68.0 / CBMC 6.11.0 / CaDiCaL", "rustc MIR of Kani's pinned toolchain"],
            explanation=spec.get("explanation", ""),
            bounds=spec.get("bounds", {}), outside_claim=list(spec.get("outside", [])) + [f"NOT RUN (written, beyond reach): {h.name}" + (f" - {getattr(__import__('props'), 'OFF', {}).get(h.name)}" if getattr(__import__('props'), 'OFF', {}).get(h.name) else "") for h in spec["harnesses"] if h.tier == "off"],
            functions_encoded=sorted(f for f in funcs if f)[:200],
            build=build_info, shims=shim_hashes, solver_seconds=round(solver_s, 2), symex_seconds=round(symex_s, 2),
            repo_tree_sha=sha256_tree(REPO, REPO_CRATES), harnesses=insts,
        ),
        assumptions=spec.get("assumptions", []),
        wall_s=round(wall, 2), violations=n_viol,
    )
    if note:
        ev["coverage"]["note"] = note
    (EVID / f"{pid}.json").write_text(json.dumps(ev, indent=1))


def main():
    ap = argparse.ArgumentParser()
    ap.add_argument("property")
    ap.add_argument("--tier", default=os.environ.get("VERIF_TIER", "quick"), choices=["quick", "thorough"])
    ap.add_argument("--jobs", type=int, default=int(os.environ.get("VERIF_JOBS", "0")))
    ap.add_argument("--harness", default=None, help="regex: run only matching harnesses")
    ap.add_argument("--keep", action="store_true")
    ap.add_argument("--no-replay", action="store_true")
    ap.add_argument("--timeout", type=int, default=0, help="override the per-harness solver timeout (seconds), for experiments")
    ap.add_argument("--replay", default=None, help="replay file written by an earlier run: re-runs that harness")
    a = ap.parse_args()
    seed = int(os.environ.get("VERIF_SEED", "0") or 0)
    only = a.harness
    tier = a.tier
    if a.replay:
        j = json.loads(Path(a.replay).read_text())
        only = "^" + re.escape(j["harness"]) + "$"
        tier = "thorough"
    jobs = a.jobs or (12 if tier == "quick" else 6)
    if a.timeout:
        os.environ["VERIF_TIMEOUT"] = str(a.timeout)
    rc = run_property(a.property.upper(), tier, jobs, only, a.keep, not a.no_replay, seed)
    sys.exit(rc)


if __name__ == "__main__":
    main()
