#!/bin/bash
# Usage: lib/seed_run.sh <SEED-ID> <check-id> [more check ids ...]   (env TIER=quick|thorough, EXTRA="...")
# Applies /verif/seeded/<SEED-ID>/patch.diff to /repo, runs the given checks, undoes the patch.
SID=$1; shift
P=/verif/seeded/$SID/patch.diff
cd /repo && git diff --quiet || { echo "/repo not clean"; exit 9; }
git -C /repo apply $P || { echo "patch does not apply"; exit 9; }
trap 'git -C /repo checkout -- . ' EXIT
cd /verif
for c in "$@"; do
  echo "=== seed $SID vs check $c (${TIER:-quick})"
  ./check $c --tier ${TIER:-quick} $EXTRA 2>&1 | grep -E "VIOLATION|INCONCLUSIVE|KNOWN|^  harness=|\] harness instances" | cut -c1-260
  echo "exit=${PIPESTATUS[0]}"
done
